import DrummerVerif.Lemmas.C14
/-! C14 prototype: the shape of one turn, towards `no_unknown_state_panic` -/
namespace Elect

/-- what a server remembers after a turn: nothing, what it remembered before (same holder, same tick), or the record
    it has just read -/
def CurShape (s s' : Srv) (r : Rec) : Prop :=
  s'.cur = none ∨ (∃ c c', s.cur = some c ∧ s'.cur = some c' ∧ c'.inst = c.inst ∧ c'.tick = c.tick) ∨
  (∃ c', s'.cur = some c' ∧ c'.inst = recInst r ∧ c'.tick = recTick r)

theorem campaign_shape (s : Srv) (r : Rec) (s' : Srv) (r' : Rec) (h : campaign s r = (s', r')) :
    s'.id = s.id ∧ s'.tick = s.tick ∧ (s'.cur = none ∨ (∃ c c', s.cur = some c ∧ s'.cur = some c' ∧ c'.inst = c.inst ∧ c'.tick = c.tick) ∨ s'.cur = s.cur) ∧
    (r' = r ∨ r' = some (s.id, s.tick)) := by
  unfold campaign write at h
  cases r with
  | none =>
    simp only at h
    split at h
    · cases h; exact ⟨rfl, rfl, Or.inl rfl, Or.inr rfl⟩
    · cases h; exact ⟨rfl, rfl, Or.inr (Or.inr rfl), Or.inr rfl⟩
  | some p =>
    obtain ⟨hh, ht⟩ := p
    simp only at h
    by_cases hc : hh = s.id ∨ hh = oldInst s
    · simp only [hc, if_true] at h
      split at h
      · cases h; exact ⟨rfl, rfl, Or.inl rfl, Or.inr rfl⟩
      · cases h; exact ⟨rfl, rfl, Or.inr (Or.inr rfl), Or.inr rfl⟩
    · simp only [hc, if_false] at h
      cases h
      refine ⟨rfl, rfl, ?_, Or.inl rfl⟩
      unfold resetFollower
      cases hcur : s.cur with
      | none => left; simp [hcur]
      | some c => right; left; exact ⟨c, { c with static := 0 }, rfl, by simp [hcur], rfl, rfl⟩

#print axioms campaign_shape

theorem setLeaderInfo_ok (cur : Option Cur) (inst tick : Nat)
    (hb : ∀ c, cur = some c → c.inst = inst → c.tick ≤ tick) : ∃ c', setLeaderInfo cur inst tick = .ok c' := by
  cases cur with
  | none => exact ⟨_, rfl⟩
  | some c =>
    unfold setLeaderInfo
    simp only
    by_cases hi : c.inst = inst
    · have hle := hb c rfl hi
      by_cases hlt : c.tick < tick
      · exact ⟨⟨inst, tick, 0⟩, by rw [if_pos ⟨hi, hlt⟩]⟩
      · have heq : c.tick = tick := by omega
        have h1 : ¬ (c.inst = inst ∧ c.tick < tick) := fun hh => hlt hh.2
        exact ⟨_, by rw [if_neg h1, if_pos ⟨hi, heq⟩]⟩
    · have h1 : ¬ (c.inst = inst ∧ c.tick < tick) := fun hh => hi hh.1
      have h2 : ¬ (c.inst = inst ∧ c.tick = tick) := fun hh => hi hh.1
      exact ⟨_, by rw [if_neg h1, if_neg h2, if_pos hi]⟩

/-- C14 `no_unknown_state_panic`, local form: a turn can only hit `panic("unknown state")` if the server remembers,
    for the holder the record names, a tick *larger* than the record's -/
theorem turn_no_panic (s : Srv) (r : Rec) (cancel : Bool)
    (hb : ∀ c, s.cur = some c → c.inst = recInst r → c.tick ≤ recTick r) : ∃ p, turn s r cancel = some p := by
  unfold turn
  simp only
  split
  · split
    · exact ⟨_, rfl⟩
    · split
      · exact ⟨_, rfl⟩
      · split <;> exact ⟨_, rfl⟩
  · split
    · exact ⟨_, rfl⟩
    · split
      · exact ⟨_, rfl⟩
      · split
        · exact ⟨_, rfl⟩
        · obtain ⟨c', hc'⟩ := setLeaderInfo_ok s.cur (recInst r) (recTick r) hb
          simp only [hc']
          split <;> exact ⟨_, rfl⟩

#print axioms turn_no_panic

theorem setLeaderInfo_shape (cur : Option Cur) (inst tick : Nat) (c' : Cur) (h : setLeaderInfo cur inst tick = .ok c') :
    c'.inst = inst ∧ c'.tick = tick := by
  cases cur with
  | none => simp [setLeaderInfo] at h; subst h; exact ⟨rfl, rfl⟩
  | some c =>
    unfold setLeaderInfo at h
    simp only at h
    split at h
    · cases h; exact ⟨rfl, rfl⟩
    · split at h
      · rename_i h2; cases h; exact ⟨h2.1, h2.2⟩
      · split at h
        · cases h; exact ⟨rfl, rfl⟩
        · cases h

end Elect
