import DrummerVerif.Lemmas.C14U
/-! C14 prototype: the shape of a whole turn (towards the global half of `no_unknown_state_panic`) -/
namespace Elect

theorem write_shape (r : Rec) (inst old tick : Nat) :
    ((write r inst old tick).1 = r ∨ (write r inst old tick).1 = some (inst, tick)) := by
  unfold write
  cases r with
  | none => right; rfl
  | some p =>
    obtain ⟨h, t⟩ := p
    simp only
    split
    · right; rfl
    · left; rfl

theorem curShape_same (s s' : Srv) (r : Rec) (h : s'.cur = s.cur) : CurShape s s' r := by
  unfold CurShape
  cases hcur : s.cur with
  | none => left; rw [h, hcur]
  | some c => right; left; exact ⟨c, c, rfl, by rw [h, hcur], rfl, rfl⟩

theorem curShape_reset (s x : Srv) (r : Rec) (hx : x.cur = s.cur) : CurShape s (resetFollower x) r := by
  unfold resetFollower CurShape
  cases hcur : s.cur with
  | none => left; simp [hx, hcur]
  | some c => right; left; exact ⟨c, { c with static := 0 }, rfl, by simp [hx, hcur], rfl, rfl⟩

/-- the shape of a turn: the id is kept, the local clock advances by one, what is remembered afterwards is nothing,
    the old memory (same holder and tick) or the record just read, and the record is untouched or now names this
    server with its new clock value -/
theorem turn_shape (s : Srv) (r : Rec) (cancel : Bool) (s' : Srv) (r' : Rec) (h : turn s r cancel = some (s', r')) :
    s'.id = s.id ∧ s'.tick = s.tick + 1 ∧ CurShape s s' r ∧ (r' = r ∨ r' = some (s.id, s.tick + 1)) := by
  unfold turn at h
  simp only at h
  split at h
  · -- leader
    split at h
    · cases h; exact ⟨rfl, rfl, Or.inl rfl, Or.inl rfl⟩
    · split at h
      · cases h; exact ⟨rfl, rfl, Or.inr (Or.inr ⟨_, rfl, rfl, rfl⟩), Or.inl rfl⟩
      · have hws := write_shape r s.id 0 (s.tick + 1)
        split at h
        · rename_i rw' hw
          cases h
          have : r' = (write r s.id 0 (s.tick + 1)).1 := by rw [hw]
          exact ⟨rfl, rfl, curShape_same s _ r rfl, this ▸ hws⟩
        · rename_i rw' hw
          cases h
          have : r' = (write r s.id 0 (s.tick + 1)).1 := by rw [hw]
          exact ⟨rfl, rfl, Or.inl rfl, this ▸ hws⟩
  · -- follower
    split at h
    · cases h; exact ⟨rfl, rfl, curShape_reset s _ r rfl, Or.inl rfl⟩
    · split at h
      · simp only [Option.some.injEq] at h
        obtain ⟨e1, e2, e3, e4⟩ := campaign_shape _ r s' r' h
        refine ⟨e1, e2, ?_, e4⟩
        rcases e3 with e3 | ⟨c, c', a, b, d1, d2⟩ | e3
        · exact Or.inl e3
        · exact Or.inr (Or.inl ⟨c, c', a, b, d1, d2⟩)
        · exact curShape_same s s' r e3
      · split at h
        · cases h
          exact ⟨rfl, rfl, Or.inl rfl, write_shape r s.id 0 (s.tick + 1)⟩
        · cases hs : setLeaderInfo s.cur (recInst r) (recTick r) with
          | unknownState => simp [hs] at h
          | ok c =>
            simp only [hs] at h
            obtain ⟨hi, ht⟩ := setLeaderInfo_shape s.cur (recInst r) (recTick r) c hs
            split at h
            · simp only [Option.some.injEq] at h
              obtain ⟨e1, e2, e3, e4⟩ := campaign_shape _ r s' r' h
              refine ⟨e1, e2, ?_, e4⟩
              rcases e3 with e3 | ⟨c0, c', a, b, d1, d2⟩ | e3
              · exact Or.inl e3
              · simp only [Option.some.injEq] at a
                subst a
                exact Or.inr (Or.inr ⟨c', b, d1.trans hi, d2.trans ht⟩)
              · exact Or.inr (Or.inr ⟨c, e3, hi, ht⟩)
            · cases h
              exact ⟨rfl, rfl, Or.inr (Or.inr ⟨c, rfl, hi, ht⟩), Or.inl rfl⟩

#print axioms turn_shape
end Elect
