import DrummerVerif.Model.Fs
/-! C16: the invariant of the pointer protocol -/
namespace DiskKV

/-- the pointer, wherever it is visible, is complete, synced, and names a directory that exists durably -/
structure Inv (s : FS) : Prop where
  curOK : ∀ n, s.cur = some n → ∃ d, s.fdata n = some d ∧ s.fsync n = some d ∧ d ∈ s.dirs ∧ d ∈ s.dirsS
  curSOK : ∀ n, s.curS = some n → ∃ d, s.fsync n = some d ∧ d ∈ s.dirsS
  fresh : (∀ n, s.cur = some n → n < s.next) ∧ (∀ n, s.curS = some n → n < s.next) ∧ (∀ n, s.upd = some n → n < s.next)
  updNe : ∀ u, s.upd = some u → s.cur ≠ some u ∧ s.curS ≠ some u
  updSOK : (∀ n, s.updS = some n → n < s.next) ∧ (∀ u, s.updS = some u → s.curS ≠ some u)

/-- C16 core: from any state satisfying the invariant, a crash followed by `Open` never panics -/
theorem open_after_crash_ok (s : FS) (h : Inv s) : openAfter (crash s) = .newRun ∨ ∃ d, openAfter (crash s) = .reopen d := by
  unfold openAfter crash
  simp only
  cases hc : s.curS with
  | none => left; rfl
  | some n =>
    right
    obtain ⟨d, h1, h2⟩ := h.curSOK n hc
    exact ⟨d, by simp [h1, h2]⟩

/-- side conditions the repaired protocol guarantees when it issues an operation -/
def Pre (s : FS) : Prim → Prop
  | .renameUpd => ∀ u, s.upd = some u → ∃ d, s.fdata u = some d ∧ s.fsync u = some d ∧ d ∈ s.dirs ∧ d ∈ s.dirsS
  | .removeDir x => ∀ n d, (s.cur = some n ∨ s.curS = some n) → (s.fdata n = some d ∨ s.fsync n = some d) → d ≠ x
  | .syncDir => ∀ n d, s.cur = some n → s.fdata n = some d → True
  | _ => True

theorem step_inv (s : FS) (p : Prim) (h : Inv s) (hp : Pre s p) : Inv (step s p) := by
  cases p with
  | mkdir d =>
    unfold step
    by_cases hd : d ∈ s.dirs
    · simp only [hd, if_true]; exact h
    · simp only [hd, if_false]
      refine ⟨?_, h.curSOK, ?_, h.updNe, ⟨fun n hn => Nat.lt_of_lt_of_le (h.updSOK.1 n hn) (Nat.le_max_left _ _), h.updSOK.2⟩⟩
      · intro n hn
        obtain ⟨x, a, b, c, e⟩ := h.curOK n hn
        exact ⟨x, a, b, List.mem_cons_of_mem _ c, e⟩
      · obtain ⟨f1, f2, f3⟩ := h.fresh
        exact ⟨fun n hn => Nat.lt_of_lt_of_le (f1 n hn) (Nat.le_max_left _ _),
               fun n hn => Nat.lt_of_lt_of_le (f2 n hn) (Nat.le_max_left _ _),
               fun n hn => Nat.lt_of_lt_of_le (f3 n hn) (Nat.le_max_left _ _)⟩
  | syncDir =>
    unfold step
    refine ⟨?_, ?_, ?_, ?_, ⟨fun n hn => h.fresh.2.2 n hn, fun u hu => (h.updNe u hu).1⟩⟩
    · intro n hn
      obtain ⟨x, a, b, c, _⟩ := h.curOK n hn
      exact ⟨x, a, b, c, c⟩
    · intro n hn
      obtain ⟨x, _, b, c, _⟩ := h.curOK n hn
      exact ⟨x, b, c⟩
    · obtain ⟨f1, _, f3⟩ := h.fresh
      exact ⟨f1, f1, f3⟩
    · intro u hu
      exact ⟨(h.updNe u hu).1, (h.updNe u hu).1⟩
  | createUpd =>
    unfold step
    obtain ⟨f1, f2, f3⟩ := h.fresh
    refine ⟨?_, ?_, ?_, ?_, ⟨fun n hn => Nat.lt_succ_of_lt (h.updSOK.1 n hn), h.updSOK.2⟩⟩
    · intro n hn
      obtain ⟨x, a, b, c, e⟩ := h.curOK n hn
      have : n ≠ s.next := Nat.ne_of_lt (f1 n hn)
      exact ⟨x, by simp [fupd, this, a], by simp [fupd, this, b], c, e⟩
    · intro n hn
      obtain ⟨x, b, c⟩ := h.curSOK n hn
      have : n ≠ s.next := Nat.ne_of_lt (f2 n hn)
      exact ⟨x, by simp [fupd, this, b], c⟩
    · refine ⟨fun n hn => Nat.lt_succ_of_lt (f1 n hn), fun n hn => Nat.lt_succ_of_lt (f2 n hn), ?_⟩
      intro n hn
      have : s.next = n := by simpa using hn
      show n < s.next + 1
      omega
    · intro u hu
      simp at hu; subst hu
      exact ⟨fun hc => Nat.lt_irrefl _ (f1 _ hc), fun hc => Nat.lt_irrefl _ (f2 _ hc)⟩
  | writeUpd d =>
    unfold step
    cases hu : s.upd with
    | none => exact h
    | some u =>
      simp only
      obtain ⟨hn1, hn2⟩ := h.updNe u hu
      obtain ⟨f1, f2, f3⟩ := h.fresh
      refine ⟨?_, ?_, ⟨f1, f2, fun n hn => f3 n (by rw [hu]; exact hn)⟩, ?_, h.updSOK⟩
      · intro n hn
        obtain ⟨x, a, b, c, e⟩ := h.curOK n hn
        have : n ≠ u := fun he => hn1 (he ▸ hn)
        exact ⟨x, by simp [fupd, this, a], b, c, e⟩
      · exact h.curSOK
      · intro u' hu'; exact h.updNe u' (by rw [hu]; exact hu')
  | syncUpd =>
    unfold step
    cases hu : s.upd with
    | none => exact h
    | some u =>
      simp only
      obtain ⟨hn1, hn2⟩ := h.updNe u hu
      obtain ⟨f1, f2, f3⟩ := h.fresh
      refine ⟨?_, ?_, ⟨f1, f2, fun n hn => f3 n (by rw [hu]; exact hn)⟩, ?_, h.updSOK⟩
      · intro n hn
        obtain ⟨x, a, b, c, e⟩ := h.curOK n hn
        have : n ≠ u := fun he => hn1 (he ▸ hn)
        exact ⟨x, a, by simp [fupd, this, b], c, e⟩
      · intro n hn
        obtain ⟨x, b, c⟩ := h.curSOK n hn
        have : n ≠ u := fun he => hn2 (he ▸ hn)
        exact ⟨x, by simp [fupd, this, b], c⟩
      · intro u' hu'; exact h.updNe u' (by rw [hu]; exact hu')
  | renameUpd =>
    unfold step
    cases hu : s.upd with
    | none => exact h
    | some u =>
      simp only
      obtain ⟨d, a, b, c, e⟩ := hp u hu
      obtain ⟨f1, f2, f3⟩ := h.fresh
      refine ⟨?_, h.curSOK, ⟨?_, f2, ?_⟩, ?_, h.updSOK⟩
      · intro n hn; simp at hn; subst hn; exact ⟨d, a, b, c, e⟩
      · intro n hn; simp at hn; subst hn; exact f3 _ hu
      · intro n hn; simp at hn
      · intro u' hu'; simp at hu'
  | removeUpd =>
    unfold step
    refine ⟨h.curOK, h.curSOK, ?_, ?_, h.updSOK⟩
    · obtain ⟨f1, f2, _⟩ := h.fresh
      exact ⟨f1, f2, fun n hn => by simp at hn⟩
    · intro u hu; simp at hu
  | removeDir x =>
    unfold step
    refine ⟨?_, h.curSOK, h.fresh, h.updNe, h.updSOK⟩
    intro n hn
    obtain ⟨d, a, b, c, e⟩ := h.curOK n hn
    have hne : d ≠ x := hp n d (Or.inl hn) (Or.inl a)
    exact ⟨d, a, b, List.mem_filter.mpr ⟨c, by simpa using hne⟩, e⟩

example : openAfter (crash (((unfixedOpenNew 7).take 6).foldl step {})) = .panicDirMissing := by decide
example : ∀ k ≤ 8, openAfter (crash (((fixedOpenNew 7).take k).foldl step {})) ≠ .panicDirMissing ∧
                   openAfter (crash (((fixedOpenNew 7).take k).foldl step {})) ≠ .panicCorrupted := by decide

#print axioms step_inv
#print axioms open_after_crash_ok
end DiskKV
