import DrummerVerif.Lemmas.C16P
/-! C16, durability of the pointer: once a database directory has been published durably, no crash brings back a new
    run, and a snapshot recovery switches from the old directory to the new one atomically -/
namespace DiskKV

/-- the durable pointer names directory `d` -/
def PublishedS (s : FS) (d : Nat) : Prop := ∃ n, s.curS = some n ∧ s.fsync n = some d

/-- after a crash, a durably published directory is what `Open` reopens -/
theorem published_reopens (s : FS) (h : Inv s) (d : Nat) (hp : PublishedS s d) : openAfter (crash s) = .reopen d := by
  obtain ⟨n, hn, hd⟩ := hp
  obtain ⟨d', h1, h2⟩ := h.curSOK n hn
  rw [hd] at h1; cases h1
  unfold openAfter crash
  simp [hn, hd, h2]

theorem published_crash (s : FS) (d : Nat) (hp : PublishedS s d) : PublishedS (crash s) d := hp

/-- the volatile pointer, when there is one, names `d` durably too -/
def CurNames (s : FS) (d : Nat) : Prop := ∀ n, s.cur = some n → s.fsync n = some d

/-- the state of the snapshot recovery's pointer switch after `k` operations -/
def recState (s : FS) (d old k : Nat) : FS := ((recoverSeq d old).take k).foldl step s

/-- **atomic switch**: from a state whose durable (and volatile) pointer names `d0`, at every point of the pointer switch
    of a snapshot recovery to directory `d` the durable pointer names `d0` or `d`; once the switch has been published
    durably (8 operations) it names `d` -/
theorem recover_switch (s : FS) (h : Inv s) (d old d0 : Nat) (hp : PublishedS s d0) (hc : CurNames s d0)
    (hcur : s.cur.isSome = true) (k : Nat) :
    (PublishedS (recState s d old k) d0 ∨ PublishedS (recState s d old k) d) ∧
    (8 ≤ k → PublishedS (recState s d old k) d) := by
  obtain ⟨n0, hn0, hd0⟩ := hp
  obtain ⟨c0, hc0⟩ := Option.isSome_iff_exists.mp hcur
  have hc0n := hc c0 hc0
  have hfr1 := h.fresh.2.1 n0 hn0
  have hfr2 := h.fresh.1 c0 hc0
  have key : ∀ (s1 : FS), s1.cur = s.cur → s1.curS = s.cur → s1.upd = s.upd → s1.fsync = s.fsync → s1.fdata = s.fdata →
      s1.next ≥ s.next →
      ∀ k, (PublishedS (((List.drop 2 (recoverSeq d old)).take k).foldl step s1) d0 ∨
            PublishedS (((List.drop 2 (recoverSeq d old)).take k).foldl step s1) d) ∧
          (6 ≤ k → PublishedS (((List.drop 2 (recoverSeq d old)).take k).foldl step s1) d) := by
    intro s1 e1 e2 e3 e4 e5 e6 k
    have hn0' : n0 ≠ s1.next := by omega
    have hc0' : c0 ≠ s1.next := by omega
    have base : PublishedS s1 d0 := ⟨c0, by rw [e2]; exact hc0, by rw [e4]; exact hc0n⟩
    match k with
    | 0 => exact ⟨Or.inl base, by omega⟩
    | 1 =>
      refine ⟨Or.inl ⟨c0, ?_, ?_⟩, by omega⟩
      · simp [recoverSeq, step, e2, hc0]
      · simp [recoverSeq, step, fupd, hc0', e4, hc0n]
    | 2 =>
      refine ⟨Or.inl ⟨c0, ?_, ?_⟩, by omega⟩
      · simp [recoverSeq, step, e2, hc0]
      · simp [recoverSeq, step, fupd, hc0', e4, hc0n]
    | 3 =>
      refine ⟨Or.inl ⟨c0, ?_, ?_⟩, by omega⟩
      · simp [recoverSeq, step, e2, hc0]
      · simp [recoverSeq, step, fupd, hc0', e4, hc0n]
    | 4 =>
      refine ⟨Or.inl ⟨c0, ?_, ?_⟩, by omega⟩
      · simp [recoverSeq, step, e1, hc0]
      · simp [recoverSeq, step, fupd, hc0', e4, hc0n]
    | 5 =>
      refine ⟨Or.inl ⟨c0, ?_, ?_⟩, by omega⟩
      · simp [recoverSeq, step, e1, hc0]
      · simp [recoverSeq, step, fupd, hc0', e4, hc0n]
    | k + 6 =>
      have : PublishedS (((List.drop 2 (recoverSeq d old)).take (k + 6)).foldl step s1) d := by
        refine ⟨s1.next, ?_, ?_⟩
        · match k with
          | 0 => simp [recoverSeq, step]
          | 1 => simp [recoverSeq, step]
          | k + 2 => simp [recoverSeq, step, List.take]
        · match k with
          | 0 => simp [recoverSeq, step, fupd]
          | 1 => simp [recoverSeq, step, fupd]
          | k + 2 => simp [recoverSeq, step, fupd, List.take]
      exact ⟨Or.inr this, fun _ => this⟩
  -- the first two operations (mkdir, syncDir) leave the pointers alone
  match k with
  | 0 => exact ⟨Or.inl ⟨n0, hn0, hd0⟩, by omega⟩
  | 1 =>
    refine ⟨Or.inl ⟨n0, ?_, ?_⟩, by omega⟩
    · unfold recState; simp only [recoverSeq, List.take, List.foldl, step]; split <;> exact hn0
    · unfold recState; simp only [recoverSeq, List.take, List.foldl, step]; split <;> exact hd0
  | k + 2 =>
    unfold recState
    have hsplit : ((recoverSeq d old).take (k + 2)).foldl step s =
        (((List.drop 2 (recoverSeq d old)).take k).foldl step (step (step s (.mkdir d)) .syncDir)) := by
      simp [recoverSeq, List.take, List.foldl]
    rw [hsplit]
    have hs1 : ∀ (x : FS), x = step (step s (.mkdir d)) .syncDir →
        x.cur = s.cur ∧ x.upd = s.upd ∧ x.fsync = s.fsync ∧ x.fdata = s.fdata ∧ x.next ≥ s.next ∧ x.curS = s.cur := by
      intro x hx
      subst hx
      simp only [step]
      split
      · exact ⟨rfl, rfl, rfl, rfl, Nat.le_refl _, rfl⟩
      · exact ⟨rfl, rfl, rfl, rfl, Nat.le_max_left _ _, rfl⟩
    obtain ⟨a1, a3, a4, a5, a6, a2⟩ := hs1 _ rfl
    -- after the directory sync the durable pointer is the volatile one, which names d0 as well
    exact key (step (step s (.mkdir d)) .syncDir) a1 a2 a3 a4 a5 a6 k |>.imp id (fun hh hk => hh (by omega))

/-- a node directory whose pointer, durable and volatile, names database directory `d` -/
structure Stable (s : FS) (d : Nat) : Prop where
  inv : Inv s
  pub : PublishedS s d
  cur : CurNames s d
  some : s.cur.isSome = true

theorem stable_reopens (s : FS) (d : Nat) (h : Stable s d) : openAfter (crash s) = .reopen d :=
  published_reopens s h.inv d h.pub

theorem stable_crash (s : FS) (d : Nat) (h : Stable s d) : Stable (crash s) d := by
  obtain ⟨n, hn, hd⟩ := h.pub
  refine ⟨crash_inv s h.inv, h.pub, ?_, ?_⟩
  · intro m hm
    have : s.curS = some m := hm
    rw [hn] at this; cases this; exact hd
  · show s.curS.isSome = true; rw [hn]; rfl

/-- the first `Open`, completed on an empty node directory, leaves it stable -/
theorem stable_first_open (d : Nat) : Stable ((fixedOpenNew d).foldl step {}) d := by
  refine ⟨run_inv _ {} inv_init (fixedOpenNew_pre {} d) 8, ⟨d + 1, ?_, ?_⟩, ?_, ?_⟩
  · simp [fixedOpenNew, step]
  · simp [fixedOpenNew, step, fupd]
  · intro n hn
    simp [fixedOpenNew, step] at hn
    subst hn
    simp [fixedOpenNew, step, fupd]
  · simp [fixedOpenNew, step]

/-- **no rollback**: a crash at any point of a snapshot recovery's pointer switch leaves the node directory stable on the
    old directory or on the new one, and on the new one once the switch has been published durably -/
theorem stable_recover_crash (s : FS) (d old d0 : Nat) (hne : d ≠ old) (h : Stable s d0) (k : Nat) :
    (Stable (crash (recState s d old k)) d0 ∨ Stable (crash (recState s d old k)) d) ∧
    (8 ≤ k → Stable (crash (recState s d old k)) d) := by
  have hinv : Inv (recState s d old k) := run_inv _ s h.inv (recoverSeq_pre s d old hne) k
  obtain ⟨hor, h8⟩ := recover_switch s h.inv d old d0 h.pub h.cur h.some k
  have mk : ∀ x, PublishedS (recState s d old k) x → Stable (crash (recState s d old k)) x := by
    intro x hp
    obtain ⟨n, hn, hd⟩ := hp
    refine ⟨crash_inv _ hinv, ⟨n, hn, hd⟩, ?_, ?_⟩
    · intro m hm
      have : (recState s d old k).curS = some m := hm
      rw [hn] at this; cases this; exact hd
    · show (recState s d old k).curS.isSome = true; rw [hn]; rfl
  exact ⟨hor.imp (mk d0) (mk d), fun hk => mk d (h8 hk)⟩

/-- and a completed recovery leaves it stable on the new directory -/
theorem stable_recover_full (s : FS) (d old d0 : Nat) (hne : d ≠ old) (h : Stable s d0) :
    Stable (recState s d old 10) d := by
  have hinv : Inv (recState s d old 10) := run_inv _ s h.inv (recoverSeq_pre s d old hne) 10
  obtain ⟨_, h8⟩ := recover_switch s h.inv d old d0 h.pub h.cur h.some 10
  have hp := h8 (by omega)
  obtain ⟨n, hn, hd⟩ := hp
  refine ⟨hinv, ⟨n, hn, hd⟩, ?_, ?_⟩
  · intro m hm
    -- after the last directory sync the volatile and the durable pointer coincide
    have hcs : (recState s d old 10).curS = (recState s d old 10).cur := by
      unfold recState; simp [recoverSeq, step]
    rw [← hcs, hn] at hm; cases hm; exact hd
  · have hcs : (recState s d old 10).curS = (recState s d old 10).cur := by
      unfold recState; simp [recoverSeq, step]
    rw [← hcs, hn]; rfl

#print axioms recover_switch
#print axioms stable_recover_crash
#print axioms stable_recover_full
end DiskKV
