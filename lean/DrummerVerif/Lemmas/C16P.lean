import DrummerVerif.Lemmas.C16
/-! C16 prototype: the repaired first-`Open` sequence meets every precondition from any invariant state, so a crash at
    any of its points is followed by a successful `Open` -/
namespace DiskKV

/-- all preconditions hold along the run -/
def runPre : FS → List Prim → Prop
  | _, [] => True
  | s, p :: ps => Pre s p ∧ runPre (step s p) ps

theorem run_inv : ∀ (ps : List Prim) (s : FS), Inv s → runPre s ps → ∀ k, Inv ((ps.take k).foldl step s) := by
  intro ps
  induction ps with
  | nil => intro s h _ k; simpa using h
  | cons p ps ih =>
    intro s h hp k
    cases k with
    | zero => simpa using h
    | succ k =>
      simp only [List.take_succ_cons, List.foldl_cons]
      exact ih (step s p) (step_inv s p h hp.1) hp.2 k

/-- crash anywhere inside a run that meets its preconditions: the next `Open` starts fresh or reopens, never panics -/
theorem crash_anywhere_ok (ps : List Prim) (s : FS) (h : Inv s) (hp : runPre s ps) (k : Nat) :
    openAfter (crash ((ps.take k).foldl step s)) = .newRun ∨ ∃ d, openAfter (crash ((ps.take k).foldl step s)) = .reopen d :=
  open_after_crash_ok _ (run_inv ps s h hp k)

/-- the repaired first-`Open` sequence meets its preconditions from every state without a half-written pointer file -/
theorem fixedOpenNew_pre (s : FS) (d : Nat) : runPre s (fixedOpenNew d) := by
  unfold fixedOpenNew runPre
  simp only [runPre, Pre, and_true, true_and, implies_true]
  -- the only real obligation: at `renameUpd` the staged pointer is complete, synced and names a durable directory
  intro u hu
  by_cases hd : d ∈ s.dirs
  · simp [step, hd, fupd] at hu ⊢
    subst hu
    simp [hd]
  · simp [step, hd, fupd] at hu ⊢
    subst hu
    simp

/-- the pointer switch of `RecoverFromSnapshot` (tests/diskkv.go:750-811): new directory made durable, pointer staged,
    synced, published, published durably, then the old directory removed -/
def recoverSeq (d old : Nat) : List Prim :=
  [.mkdir d, .syncDir, .createUpd, .writeUpd d, .syncUpd, .renameUpd, .syncDir, .removeDir old, .syncDir]

/-- it meets every precondition from any state, provided the new directory is not the old one -/
theorem recoverSeq_pre (s : FS) (d old : Nat) (hne : d ≠ old) : runPre s (recoverSeq d old) := by
  unfold recoverSeq runPre
  simp only [runPre, Pre, and_true, true_and, implies_true]
  constructor
  · intro u hu
    by_cases hd : d ∈ s.dirs
    · simp [step, hd, fupd] at hu ⊢
      subst hu
      simp [hd]
    · simp [step, hd, fupd] at hu ⊢
      subst hu
      simp
  · intro n d' hn hd'
    by_cases hd : d ∈ s.dirs
    · simp [step, hd, fupd] at hn hd'
      subst hn
      simp at hd'
      rw [← hd']; exact hne
    · simp [step, hd, fupd] at hn hd'
      subst hn
      simp at hd'
      rw [← hd']; exact hne

/-- C16, pointer protocol: from any invariant state, a crash at any point of the first `Open` or of a snapshot
    recovery is followed by an `Open` that starts fresh or reopens a directory that exists — never a panic -/
theorem pointer_protocol_crash_safe (s : FS) (h : Inv s) (d old : Nat) (hne : d ≠ old) (k : Nat) :
    (openAfter (crash (((fixedOpenNew d).take k).foldl step s)) = .newRun ∨
      ∃ x, openAfter (crash (((fixedOpenNew d).take k).foldl step s)) = .reopen x) ∧
    (openAfter (crash (((recoverSeq d old).take k).foldl step s)) = .newRun ∨
      ∃ x, openAfter (crash (((recoverSeq d old).take k).foldl step s)) = .reopen x) :=
  ⟨crash_anywhere_ok _ s h (fixedOpenNew_pre s d) k, crash_anywhere_ok _ s h (recoverSeq_pre s d old hne) k⟩

#print axioms pointer_protocol_crash_safe
#print axioms crash_anywhere_ok
#print axioms fixedOpenNew_pre
end DiskKV
