import DrummerVerif.Lemmas.C16
/-! C16 prototype: the repaired first-`Open` sequence meets every precondition from any invariant state, so a crash at
    any of its points is followed by a successful `Open` -/
namespace DiskKV

/-- all preconditions hold along the run -/
def runPre : FS → List Prim → Prop
  | _, [] => True
  | s, p :: ps => Pre s p ∧ runPre (step s p) ps

theorem run_inv : ∀ (ps : List Prim) (s : FS), Inv s → runPre s ps → ∀ k, Inv ((ps.take k).foldl step s) := by
  intro ps
  induction ps with
  | nil => intro s h _ k; simpa using h
  | cons p ps ih =>
    intro s h hp k
    cases k with
    | zero => simpa using h
    | succ k =>
      simp only [List.take_succ_cons, List.foldl_cons]
      exact ih (step s p) (step_inv s p h hp.1) hp.2 k

/-- crash anywhere inside a run that meets its preconditions: the next `Open` starts fresh or reopens, never panics -/
theorem crash_anywhere_ok (ps : List Prim) (s : FS) (h : Inv s) (hp : runPre s ps) (k : Nat) :
    openAfter (crash ((ps.take k).foldl step s)) = .newRun ∨ ∃ d, openAfter (crash ((ps.take k).foldl step s)) = .reopen d :=
  open_after_crash_ok _ (run_inv ps s h hp k)

/-- the repaired first-`Open` sequence meets its preconditions from every state without a half-written pointer file -/
theorem fixedOpenNew_pre (s : FS) (d : Nat) : runPre s (fixedOpenNew d) := by
  unfold fixedOpenNew runPre
  simp only [runPre, Pre, and_true, true_and, implies_true]
  -- the only real obligation: at `renameUpd` the staged pointer is complete, synced and names a durable directory
  intro u hu
  by_cases hd : d ∈ s.dirs
  · simp [step, hd, fupd] at hu ⊢
    subst hu
    simp [hd]
  · simp [step, hd, fupd] at hu ⊢
    subst hu
    simp

/-- it meets every precondition from any state, provided the new directory is not the old one -/
theorem recoverSeq_pre (s : FS) (d old : Nat) (hne : d ≠ old) : runPre s (recoverSeq d old) := by
  unfold recoverSeq runPre
  simp only [runPre, Pre, and_true, true_and, implies_true]
  constructor
  · intro u hu
    by_cases hd : d ∈ s.dirs
    · simp [step, hd, fupd] at hu ⊢
      subst hu
      simp [hd]
    · simp [step, hd, fupd] at hu ⊢
      subst hu
      simp
  · intro n d' hn hd'
    by_cases hd : d ∈ s.dirs
    · simp [step, hd, fupd] at hn hd'
      subst hn
      simp at hd'
      rw [← hd']; exact hne
    · simp [step, hd, fupd] at hn hd'
      subst hn
      simp at hd'
      rw [← hd']; exact hne

/-- C16, pointer protocol: from any invariant state, a crash at any point of the first `Open` or of a snapshot
    recovery is followed by an `Open` that starts fresh or reopens a directory that exists — never a panic -/
theorem pointer_protocol_crash_safe (s : FS) (h : Inv s) (d old : Nat) (hne : d ≠ old) (k : Nat) :
    (openAfter (crash (((fixedOpenNew d).take k).foldl step s)) = .newRun ∨
      ∃ x, openAfter (crash (((fixedOpenNew d).take k).foldl step s)) = .reopen x) ∧
    (openAfter (crash (((recoverSeq d old).take k).foldl step s)) = .newRun ∨
      ∃ x, openAfter (crash (((recoverSeq d old).take k).foldl step s)) = .reopen x) :=
  ⟨crash_anywhere_ok _ s h (fixedOpenNew_pre s d) k, crash_anywhere_ok _ s h (recoverSeq_pre s d old hne) k⟩

#print axioms pointer_protocol_crash_safe
#print axioms crash_anywhere_ok
#print axioms fixedOpenNew_pre
end DiskKV

namespace DiskKV
/-- the invariant survives a crash, so everything above applies again to a crash during the recovery from a crash
    (double crashes, and so on) -/
theorem crash_inv (s : FS) (h : Inv s) : Inv (crash s) := by
  refine ⟨?_, ?_, ?_, ?_, ?_⟩
  · intro n hn
    obtain ⟨d, h1, h2⟩ := h.curSOK n hn
    exact ⟨d, h1, h1, h2, h2⟩
  · intro n hn
    exact h.curSOK n hn
  · exact ⟨fun n hn => h.fresh.2.1 n hn, fun n hn => h.fresh.2.1 n hn, fun n hn => h.updSOK.1 n hn⟩
  · intro u hu
    exact ⟨h.updSOK.2 u hu, h.updSOK.2 u hu⟩
  · exact h.updSOK

/-- the empty node directory (before the first `Open`) satisfies the invariant -/
theorem inv_init : Inv {} := by
  refine ⟨?_, ?_, ⟨?_, ?_, ?_⟩, ?_, ⟨?_, ?_⟩⟩ <;> intro n hn <;> cases hn

/-- reachable states: any interleaving of protocol runs (first open, snapshot recoveries to fresh directories,
    clean-ups at reopen) and crashes, starting from the empty directory -/
inductive Reach : FS → Prop
  | init : Reach {}
  | openNew (s : FS) (d k : Nat) : Reach s → Reach (((fixedOpenNew d).take k).foldl step s)
  | recover (s : FS) (d old k : Nat) : Reach s → d ≠ old → Reach (((recoverSeq d old).take k).foldl step s)
  | cleanup (s : FS) (k : Nat) : Reach s → Reach ((reopenSeq.take k).foldl step s)
  | crash (s : FS) : Reach s → Reach (DiskKV.crash s)

theorem reach_inv (s : FS) (h : Reach s) : Inv s := by
  induction h with
  | init => exact inv_init
  | openNew s d k _ ih => exact run_inv _ s ih (fixedOpenNew_pre s d) k
  | recover s d old k _ hne ih => exact run_inv _ s ih (recoverSeq_pre s d old hne) k
  | cleanup s k _ ih => exact run_inv _ s ih (by simp [reopenSeq, runPre, Pre]) k
  | crash s _ ih => exact crash_inv s ih

/-- **C16, pointer protocol, every crash point, any number of crashes**: in every state reachable by prefixes of
    protocol runs and crashes in any order — i.e. a crash at any point of a first open, of a snapshot recovery or of a
    reopen's clean-up, again during the recovery from that crash, and so on — the next `Open` starts a new run or
    reopens a directory that exists. It never panics. -/
theorem open_never_panics (s : FS) (h : Reach s) :
    openAfter (crash s) = .newRun ∨ ∃ d, openAfter (crash s) = .reopen d :=
  open_after_crash_ok s (reach_inv s h)
end DiskKV
