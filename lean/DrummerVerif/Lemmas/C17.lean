import DrummerVerif.Lemmas.C13
/-! C17 prototype: M-API (repaired server.go front-end) over M-DB — malformed requests are refused and no
    configuration call can make the DB fail-stop -/
namespace Drummer

inductive ApiOut
  | code (c : Nat)            -- ChangeResponse code decided by the DB (0 OK, 1 SHARD_EXIST, 2 BOOTSTRAPPED)
  | invalidArgument           -- refused by the service, nothing proposed
  | crashed (why : String)    -- the replicated DB panicked while applying the proposed command
  deriving Repr, DecidableEq

def regionsKey : Bytes := "regions-key".toUTF8.toList
def bootRec : KVRec := { key := bootstrappedKey, value := "true".toUTF8.toList, finalized := true }
def regionsRec (enc : Bytes) : KVRec := { key := regionsKey, value := enc, finalized := true }
theorem bootRec_key : bootRec.key.isEmpty = false := by decide +kernel
theorem bootRec_val : bootRec.value.isEmpty = false := by decide +kernel
theorem regionsKey_ne : regionsKey.isEmpty = false := by decide +kernel

/-- SubmitChange (repaired: validates before proposing) -/
def apiSubmitChange (d : DB) (c : ShardDef) : ApiOut × DB :=
  if c.members.isEmpty || c.appName.isEmpty then (.invalidArgument, d) else
  match d.apply (.shard c) with
  | .ok (d', n) => (.code n, d')
  | .panic w => (.crashed w, d)

/-- SetRegions (repaired); `encoded` is the protobuf encoding of the specification, non-empty when the specification
    is non-empty -/
def apiSetRegions (d : DB) (region : List String) (count : List Nat) (encoded : Bytes) : ApiOut × DB :=
  if region.isEmpty || region.length != count.length || encoded.isEmpty then (.invalidArgument, d) else
  match d.apply (.kv (regionsRec encoded)) with
  | .ok (d', n) => (.code (if n = DBKVUpdated ∨ n = DBKVFinalized then 0 else n), d')
  | .panic w => (.crashed w, d)

def apiSetBootstrapped (d : DB) : ApiOut × DB :=
  match d.apply (.kv bootRec) with
  | .ok (d', n) => (.code (if n = DBKVUpdated ∨ n = DBKVFinalized then 0 else n), d')
  | .panic w => (.crashed w, d)

/-- C17 `malformed_refused`: no members, empty application name, empty or inconsistent region specification are
    answered with an error and leave the DB untouched -/
theorem malformed_refused (d : DB) (c : ShardDef) (region : List String) (count : List Nat) (enc : Bytes) :
    (c.members = [] ∨ c.appName = "" → apiSubmitChange d c = (.invalidArgument, d)) ∧
    (region = [] ∨ region.length ≠ count.length → apiSetRegions d region count enc = (.invalidArgument, d)) := by
  constructor
  · intro h
    unfold apiSubmitChange
    rcases h with h | h <;> simp [h]
  · intro h
    unfold apiSetRegions
    rcases h with h | h
    · simp [h]
    · have : (region.length != count.length) = true := by simpa using h
      simp [this]

theorem applyShard_no_panic (d : DB) (c : ShardDef) (h1 : c.members.isEmpty = false) (h2 : c.appName.isEmpty = false) :
    ∃ p, d.applyShard c = .ok p := by
  unfold DB.applyShard
  simp only [h1, h2, Bool.false_eq_true, if_false]
  split
  · exact ⟨_, rfl⟩
  · split <;> exact ⟨_, rfl⟩

theorem applyKV_no_panic (d : DB) (kv : KVRec) (h1 : kv.key.isEmpty = false) (h2 : kv.value.isEmpty = false) :
    ∃ p, d.applyKV kv = .ok p := by
  unfold DB.applyKV
  simp only [h1, h2, Bool.or_self, Bool.false_eq_true, if_false]
  split
  · exact ⟨_, rfl⟩
  · split
    · exact ⟨_, rfl⟩
    · split <;> exact ⟨_, rfl⟩

/-- C17 `config_never_failstops`: on a DB that has not fail-stopped, none of the three configuration calls — with any
    argument whatsoever — makes the replicated DB panic -/
theorem config_never_failstops (d : DB) (hf : d.failed = false) (c : ShardDef) (region : List String) (count : List Nat)
    (enc : Bytes) :
    (∀ w, (apiSubmitChange d c).1 ≠ .crashed w) ∧ (∀ w, (apiSetRegions d region count enc).1 ≠ .crashed w) ∧
    (∀ w, (apiSetBootstrapped d).1 ≠ .crashed w) := by
  refine ⟨?_, ?_, ?_⟩
  · intro w
    unfold apiSubmitChange
    by_cases hm : (c.members.isEmpty || c.appName.isEmpty) = true
    · simp [hm]
    · simp only [hm]
      simp only [Bool.or_eq_true, not_or, Bool.not_eq_true] at hm
      obtain ⟨p, hp⟩ := applyShard_no_panic d c hm.1 hm.2
      have : d.apply (.shard c) = .ok p := by unfold DB.apply; simp [hf, hp]
      simp [this]
  · intro w
    unfold apiSetRegions
    by_cases hm : (region.isEmpty || region.length != count.length || enc.isEmpty) = true
    · simp [hm]
    · simp only [hm]
      simp only [Bool.or_eq_true, not_or, Bool.not_eq_true] at hm
      obtain ⟨p, hp⟩ := applyKV_no_panic d (regionsRec enc) regionsKey_ne hm.2
      have : d.apply (.kv (regionsRec enc)) = .ok p := by
        unfold DB.apply; simp [hf, hp]
      simp [this]
  · intro w
    unfold apiSetBootstrapped
    obtain ⟨p, hp⟩ := applyKV_no_panic d bootRec bootRec_key bootRec_val
    have : d.apply (.kv bootRec) = .ok p := by
      unfold DB.apply; simp [hf, hp]
    simp [this]

#print axioms config_never_failstops
end Drummer
