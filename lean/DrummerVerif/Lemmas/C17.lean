import DrummerVerif.Lemmas.C13
import DrummerVerif.Model.Api
/-! C17: malformed requests are refused and no configuration call can make the DB fail-stop -/
namespace Drummer

/-- C17 `malformed_refused`: no members, empty application name, empty or inconsistent region specification are
    answered with an error and leave the DB untouched -/
theorem malformed_refused (d : DB) (c : ShardDef) (region : List String) (count : List Nat) (enc : Bytes) :
    (c.members = [] ∨ c.appName = "" → apiSubmitChange d c = (.invalidArgument, d)) ∧
    (region = [] ∨ region.length ≠ count.length → apiSetRegions d region count enc = (.invalidArgument, d)) := by
  constructor
  · intro h
    unfold apiSubmitChange
    rcases h with h | h <;> simp [h]
  · intro h
    unfold apiSetRegions
    rcases h with h | h
    · simp [h]
    · have : (region.length != count.length) = true := by simpa using h
      simp [this]

theorem applyShard_no_panic (d : DB) (c : ShardDef) (h1 : c.members.isEmpty = false) (h2 : c.appName.isEmpty = false) :
    ∃ p, d.applyShard c = .ok p := by
  unfold DB.applyShard
  simp only [h1, h2, Bool.false_eq_true, if_false]
  split
  · exact ⟨_, rfl⟩
  · split <;> exact ⟨_, rfl⟩

theorem applyKV_no_panic (d : DB) (kv : KVRec) (h1 : kv.key.isEmpty = false) (h2 : kv.value.isEmpty = false) :
    ∃ p, d.applyKV kv = .ok p := by
  unfold DB.applyKV
  simp only [h1, h2, Bool.or_self, Bool.false_eq_true, if_false]
  split
  · exact ⟨_, rfl⟩
  · split
    · exact ⟨_, rfl⟩
    · split <;> exact ⟨_, rfl⟩

/-- C17 `config_never_failstops`: on a DB that has not fail-stopped, none of the three configuration calls — with any
    argument whatsoever — makes the replicated DB panic -/
theorem config_never_failstops (d : DB) (hf : d.failed = false) (c : ShardDef) (region : List String) (count : List Nat)
    (enc : Bytes) :
    (∀ w, (apiSubmitChange d c).1 ≠ .crashed w) ∧ (∀ w, (apiSetRegions d region count enc).1 ≠ .crashed w) ∧
    (∀ w, (apiSetBootstrapped d).1 ≠ .crashed w) := by
  refine ⟨?_, ?_, ?_⟩
  · intro w
    unfold apiSubmitChange
    by_cases hm : (c.members.isEmpty || c.appName.isEmpty) = true
    · simp [hm]
    · simp only [hm]
      simp only [Bool.or_eq_true, not_or, Bool.not_eq_true] at hm
      obtain ⟨p, hp⟩ := applyShard_no_panic d c hm.1 hm.2
      have : d.apply (.shard c) = .ok p := by unfold DB.apply; simp [hf, hp]
      simp [this]
  · intro w
    unfold apiSetRegions
    by_cases hm : (region.isEmpty || region.length != count.length || enc.isEmpty) = true
    · simp [hm]
    · simp only [hm]
      simp only [Bool.or_eq_true, not_or, Bool.not_eq_true] at hm
      obtain ⟨p, hp⟩ := applyKV_no_panic d (regionsRec enc) regionsKey_ne hm.2
      have : d.apply (.kv (regionsRec enc)) = .ok p := by
        unfold DB.apply; simp [hf, hp]
      simp [this]
  · intro w
    unfold apiSetBootstrapped
    obtain ⟨p, hp⟩ := applyKV_no_panic d bootRec bootRec_key bootRec_val
    have : d.apply (.kv bootRec) = .ok p := by
      unfold DB.apply; simp [hf, hp]
    simp [this]

#print axioms config_never_failstops
end Drummer
