import DrummerVerif.Model.Db
/-! C18 prototype: M-AGENT — what the NodeHost agent reports and how it dispatches received requests -/
namespace Drummer

/-- client/nodehost.go:125-129: details are left out iff Drummer's advertised version is at least the local one
    and the replica is not pending -/
def reportIncomplete (advertised : Option Nat) (localCci : Nat) (pending : Bool) : Bool :=
  match advertised with
  | some k => decide (k ≥ localCci) && !pending
  | none => false

/-- C18 `never_hides_news` -/
theorem never_hides_news (adv : Option Nat) (cci : Nat) (pending : Bool)
    (h : adv = none ∨ (∃ k, adv = some k ∧ k < cci) ∨ pending = true) : reportIncomplete adv cci pending = false := by
  unfold reportIncomplete
  rcases h with h | ⟨k, hk, hlt⟩ | h
  · simp [h]
  · simp [hk]; intro hge; omega
  · cases adv <;> simp [h]

/-- and nothing more than necessary is sent when Drummer is up to date -/
theorem incomplete_when_current (k cci : Nat) (h : k ≥ cci) : reportIncomplete (some k) cci false = true := by
  unfold reportIncomplete; simp [h]

/-- `HandleMasterRequests`: one worker per shard id, each handling the requests of its shard in arrival order -/
def dispatch (reqs : List Request) : List (Nat × List Request) :=
  (reqs.map (·.shardId)).eraseDups.map fun s => (s, reqs.filter (·.shardId == s))

/-- C18 `dispatch_once_in_order`: every received request is handled by the worker of its shard, the worker's list is
    the arrival-order sublist of that shard's requests, and no worker handles a request of another shard -/
theorem dispatch_spec (reqs : List Request) :
    (∀ r ∈ reqs, ∃ w ∈ dispatch reqs, w.1 = r.shardId ∧ r ∈ w.2) ∧
    (∀ w ∈ dispatch reqs, w.2 = reqs.filter (·.shardId == w.1) ∧ List.Sublist w.2 reqs) := by
  constructor
  · intro r hr
    refine ⟨(r.shardId, reqs.filter (·.shardId == r.shardId)), ?_, rfl, ?_⟩
    · unfold dispatch
      apply List.mem_map.mpr
      exact ⟨r.shardId, List.mem_eraseDups.mpr (List.mem_map_of_mem hr), rfl⟩
    · exact List.mem_filter.mpr ⟨hr, by simp⟩
  · intro w hw
    unfold dispatch at hw
    obtain ⟨s, _, rfl⟩ := List.mem_map.mp hw
    exact ⟨rfl, List.filter_sublist⟩

theorem nodup_eraseDups : ∀ (n : Nat) (l : List Nat), l.length ≤ n → l.eraseDups.Nodup := by
  intro n
  induction n with
  | zero => intro l h; have : l = [] := by cases l <;> simp_all
            subst this; simp
  | succ n ih =>
    intro l h
    cases l with
    | nil => simp
    | cons a as =>
      rw [List.eraseDups_cons]
      apply List.nodup_cons.mpr
      constructor
      · intro hm
        have := List.mem_eraseDups.mp hm
        simp at this
      · apply ih
        have := List.length_filter_le (fun b => !b == a) as
        simp at h
        omega

/-- workers are pairwise for different shards: no request is handled twice -/
theorem dispatch_keys_nodup (reqs : List Request) : ((dispatch reqs).map (·.1)).Nodup := by
  unfold dispatch
  rw [List.map_map]
  have : ((fun (w : Nat × List Request) => w.1) ∘ fun s => (s, reqs.filter (·.shardId == s))) = id := by
    funext s; rfl
  rw [this, List.map_id]
  exact nodup_eraseDups _ _ (Nat.le_refl _)

#print axioms dispatch_spec
end Drummer
