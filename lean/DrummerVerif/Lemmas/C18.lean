import DrummerVerif.Model.Agent
/-! C18 lemmas over M-AGENT -/
namespace Drummer

/-- C18 `never_hides_news` -/
theorem never_hides_news (adv : Option Nat) (cci : Nat) (pending : Bool)
    (h : adv = none ∨ (∃ k, adv = some k ∧ k < cci) ∨ pending = true) : reportIncomplete adv cci pending = false := by
  unfold reportIncomplete
  rcases h with h | ⟨k, hk, hlt⟩ | h
  · simp [h]
  · simp [hk]; intro hge; omega
  · cases adv <;> simp [h]

/-- and nothing more than necessary is sent when Drummer is up to date -/
theorem incomplete_when_current (k cci : Nat) (h : k ≥ cci) : reportIncomplete (some k) cci false = true := by
  unfold reportIncomplete; simp [h]

/-- C18 `dispatch_once_in_order`: every received request is handled by the worker of its shard, the worker's list is
    the arrival-order sublist of that shard's requests, and no worker handles a request of another shard -/
theorem dispatch_spec (reqs : List Request) :
    (∀ r ∈ reqs, ∃ w ∈ dispatch reqs, w.1 = r.shardId ∧ r ∈ w.2) ∧
    (∀ w ∈ dispatch reqs, w.2 = reqs.filter (·.shardId == w.1) ∧ List.Sublist w.2 reqs) := by
  constructor
  · intro r hr
    refine ⟨(r.shardId, reqs.filter (·.shardId == r.shardId)), ?_, rfl, ?_⟩
    · unfold dispatch
      apply List.mem_map.mpr
      exact ⟨r.shardId, List.mem_eraseDups.mpr (List.mem_map_of_mem hr), rfl⟩
    · exact List.mem_filter.mpr ⟨hr, by simp⟩
  · intro w hw
    unfold dispatch at hw
    obtain ⟨s, _, rfl⟩ := List.mem_map.mp hw
    exact ⟨rfl, List.filter_sublist⟩

theorem nodup_eraseDups : ∀ (n : Nat) (l : List Nat), l.length ≤ n → l.eraseDups.Nodup := by
  intro n
  induction n with
  | zero => intro l h; have : l = [] := by cases l <;> simp_all
            subst this; simp
  | succ n ih =>
    intro l h
    cases l with
    | nil => simp
    | cons a as =>
      rw [List.eraseDups_cons]
      apply List.nodup_cons.mpr
      constructor
      · intro hm
        have := List.mem_eraseDups.mp hm
        simp at this
      · apply ih
        have := List.length_filter_le (fun b => !b == a) as
        simp at h
        omega

/-- workers are pairwise for different shards: no request is handled twice -/
theorem dispatch_keys_nodup (reqs : List Request) : ((dispatch reqs).map (·.1)).Nodup := by
  unfold dispatch
  rw [List.map_map]
  have : ((fun (w : Nat × List Request) => w.1) ∘ fun s => (s, reqs.filter (·.shardId == s))) = id := by
    funext s; rfl
  rw [this, List.map_id]
  exact nodup_eraseDups _ _ (Nat.le_refl _)

#print axioms dispatch_spec
/-- C18 `report_lists_everything`: one list entry and one detail entry per hosted replica, in order -/
theorem report_lists_everything (addr api : String) (locals : List LocalShard) (adv : List (Nat × Nat)) (li : Bool)
    (log : List LogInfo) :
    (agentReport addr api locals adv li log).shardIdList = locals.map (·.shardId) ∧
    (agentReport addr api locals adv li log).shardInfo.map (fun i => (i.shardId, i.replicaId, i.cci, i.pending)) =
      locals.map (fun l => (l.shardId, l.replicaId, l.cci, l.pending)) := by
  unfold agentReport
  simp [List.map_map, Function.comp_def]

/-- C18 `never_hides_news`, whole report: a hosted replica whose shard is unknown to Drummer, or whose local version
    is newer than the advertised one, or which is pending, is reported with its full membership -/
theorem report_never_hides_news (addr api : String) (locals : List LocalShard) (adv : List (Nat × Nat)) (li : Bool)
    (log : List LogInfo) (l : LocalShard) (hl : l ∈ locals)
    (h : (adv.find? (·.1 == l.shardId)).map (·.2) = none ∨
         (∃ k, (adv.find? (·.1 == l.shardId)).map (·.2) = some k ∧ k < l.cci) ∨ l.pending = true) :
    ∃ i ∈ (agentReport addr api locals adv li log).shardInfo,
      i.shardId = l.shardId ∧ i.replicaId = l.replicaId ∧ i.incomplete = false ∧ i.replicas = l.members := by
  unfold agentReport
  refine ⟨_, List.mem_map_of_mem hl, rfl, rfl, ?_, ?_⟩
  · exact never_hides_news _ _ _ h
  · simp [never_hides_news _ _ _ h]

/-- C18 `loginfo_iff_announced` -/
theorem loginfo_iff_announced (addr api : String) (locals : List LocalShard) (adv : List (Nat × Nat)) (li : Bool)
    (log : List LogInfo) :
    (agentReport addr api locals adv li log).plogIncluded = li ∧ (agentReport addr api locals adv li log).plogInfo = log :=
  ⟨rfl, rfl⟩

/-- C18 "with the intended effect", launch / join / restore table: a join request starts the replica whether or not the
    NodeHost already holds data of it (so the resent join request after a restart is not lost) -/
theorem instantiate_join_starts (hasInfo : Bool) : instantiate true false hasInfo = .start true := rfl

/-- a restore request starts the replica exactly when its data is there, and starts it as a restart (no join) -/
theorem instantiate_restore_iff_data (hasInfo : Bool) :
    (instantiate false true hasInfo).started = hasInfo ∧
      (hasInfo = true → instantiate false true hasInfo = .start false) := by
  cases hasInfo <;> simp [instantiate, InstOutcome.started]

/-- a launch request on a NodeHost without data of the replica starts it as an initial member -/
theorem instantiate_launch_fresh : instantiate false false false = .start false := rfl

end Drummer
