/-! C19 prototype: M-NHAPI — session kind cache, session conversion, error table (nodehostapi.go) -/
namespace NHApi

inductive SMType | regular | concurrent | onDisk deriving DecidableEq, Repr

abbrev Cache := List (Nat × Bool)
def Cache.lookup (c : Cache) (sid : Nat) : Option Bool := (List.find? (·.1 == sid) c).map (·.2)

/-- `supportRegularSession` as it is today: every hosted shard's type is written under the *requested* id -/
def supportOld (hosted : List (Nat × SMType)) (c : Cache) (sid : Nat) : Option Bool × Cache :=
  match Cache.lookup c sid with
  | some v => (some v, c)
  | none =>
    let c' := hosted.foldl (fun c (p : Nat × SMType) => (sid, decide (p.2 ≠ .onDisk)) :: c) c
    (Cache.lookup c' sid, c')

/-- repaired (F-C19): only the entry of the requested shard counts -/
def supportNew (hosted : List (Nat × SMType)) (c : Cache) (sid : Nat) : Option Bool × Cache :=
  match Cache.lookup c sid with
  | some v => (some v, c)
  | none =>
    match hosted.find? (·.1 == sid) with
    | some p => (some (decide (p.2 ≠ .onDisk)), (sid, decide (p.2 ≠ .onDisk)) :: c)
    | none => (none, c)

/-- the cache only ever holds the truth about hosted shards -/
def Cache.Sound (hosted : List (Nat × SMType)) (c : Cache) : Prop :=
  ∀ sid v, Cache.lookup c sid = some v → ∃ p, hosted.find? (·.1 == sid) = some p ∧ v = decide (p.2 ≠ .onDisk)

theorem get_cons (c : Cache) (a sid : Nat) (v : Bool) :
    Cache.lookup ((a, v) :: c) sid = if a = sid then some v else Cache.lookup c sid := by
  unfold Cache.lookup
  by_cases h : a = sid
  · simp [List.find?, h]
  · have hb : (a == sid) = false := by simpa using h
    simp [List.find?, hb, h]

/-- C19 `session_kind`: whatever was asked before and in whatever order the shards are listed, a hosted shard is
    answered by its own state-machine type and a shard that is not hosted gets an error; soundness is kept -/
theorem supportNew_correct (hosted : List (Nat × SMType)) (c : Cache) (sid : Nat) (hs : c.Sound hosted) :
    (match hosted.find? (·.1 == sid) with
     | some p => (supportNew hosted c sid).1 = some (decide (p.2 ≠ .onDisk))
     | none => (supportNew hosted c sid).1 = none) ∧
    (supportNew hosted c sid).2.Sound hosted := by
  unfold supportNew
  cases hc : Cache.lookup c sid with
  | some v =>
    obtain ⟨p, hp, hv⟩ := hs sid v hc
    simp only [hp]
    exact ⟨by rw [hv], hs⟩
  | none =>
    cases hf : hosted.find? (·.1 == sid) with
    | none => simp only [hf]; exact ⟨trivial, hs⟩
    | some p =>
      simp only [hf]
      refine ⟨trivial, ?_⟩
      intro s v hg
      rw [get_cons] at hg
      by_cases he : sid = s
      · subst he
        simp only [if_true, Option.some.injEq] at hg
        exact ⟨p, hf, hg.symm⟩
      · simp only [he, if_false] at hg
        exact hs s v hg

/-- F-C19 witness: today a regular shard listed before an on-disk one is handed a no-op session, and a shard that
    is not hosted at all is handed a session instead of an error -/
example : (supportOld [(10, .regular), (20, .onDisk)] [] 10).1 = some false := by decide
example : (supportOld [(10, .regular)] [] 30).1 = some true := by decide
example : (supportNew [(10, .regular), (20, .onDisk)] [] 10).1 = some true := by decide
example : (supportNew [(10, .regular)] [] 30).1 = none := by decide

/-! session conversion -/
structure Session where
  shardID : Nat
  clientID : Nat
  seriesID : Nat
  respondedTo : Nat
  deriving DecidableEq
structure PBSession where
  shardID : Nat
  clientID : Nat
  seriesID : Nat
  respondedTo : Nat
  deriving DecidableEq
def toNH (s : PBSession) : Session := ⟨s.shardID, s.clientID, s.seriesID, s.respondedTo⟩
def toPB (s : Session) : PBSession := ⟨s.shardID, s.clientID, s.seriesID, s.respondedTo⟩
theorem session_roundtrip (s : Session) (p : PBSession) : toNH (toPB s) = s ∧ toPB (toNH p) = p := ⟨rfl, rfl⟩

/-! error table -/
inductive Err | invalidSession | payloadTooBig | timeoutTooSmall | systemBusy | closed | shardClosed | shardNotFound
  | ctxCanceled | canceled | ctxDeadline | timeout | other
  deriving DecidableEq, Repr
inductive Code | invalidArgument | unavailable | notFound | canceled | deadlineExceeded | unknown
  deriving DecidableEq, Repr
def grpcCode : Err → Code
  | .invalidSession | .payloadTooBig | .timeoutTooSmall => .invalidArgument
  | .systemBusy | .closed | .shardClosed => .unavailable
  | .shardNotFound => .notFound
  | .ctxCanceled | .canceled => .canceled
  | .ctxDeadline | .timeout => .deadlineExceeded
  | .other => .unknown

#print axioms supportNew_correct
end NHApi
