import DrummerVerif.Model.Codec
/-! C20 prototype theorems on M-CODEC -/
namespace Codec

theorem decField_ne_oob (data : Bytes) (i : Nat) : decField data i ≠ .oob := by
  unfold decField
  cases h0 : data[i]? with
  | none => simp
  | some b0 =>
    simp only
    split
    · simp
    · rename_i x i1 _
      split
      · simp
      · split
        · simp
        · rename_i hlt
          have hlt' : i1 + x < data.length := by omega
          have : data[i1 + x]? = some data[i1 + x] := List.getElem?_eq_getElem hlt'
          simp [this]

/-- decoding arbitrary bytes into any prior object never reads out of bounds -/
theorem unmarshal_ne_oob (o : KV) (data : Bytes) : unmarshal o data ≠ .oob := by
  unfold unmarshal
  cases data with
  | nil => simp
  | cons h0 t =>
    simp only
    by_cases hk : h0 = 0
    · simp only [hk, if_true]
      cases hf : decField (0 :: t) 1 with
      | oob => exact absurd hf (decField_ne_oob _ _)
      | max => simp
      | eof i => simp [eofErr]; split <;> simp
      | ok b i hdr =>
        simp only
        by_cases hv : hdr = 1
        · simp only [hv, if_true]
          cases hf2 : decField (0 :: t) i with
          | oob => exact absurd hf2 (decField_ne_oob _ _)
          | max => simp
          | eof i' => simp [eofErr]; split <;> simp
          | ok b2 i2 hdr2 =>
            simp only
            split
            · simp
            · split
              · simp
              · simp [eofErr]; split <;> simp
        · simp only [hv, if_false]
          split
          · simp
          · split
            · simp
            · simp [eofErr]; split <;> simp
    · simp only [hk, if_false]
      by_cases hv : h0 = 1
      · simp only [hv, if_true]
        cases hf2 : decField (1 :: t) 1 with
        | oob => exact absurd hf2 (decField_ne_oob _ _)
        | max => simp
        | eof i' => simp [eofErr]; split <;> simp
        | ok b2 i2 hdr2 =>
          simp only
          split
          · simp
          · split
            · simp
            · simp [eofErr]; split <;> simp
      · simp only [hv, if_false]
        split
        · simp
        · split
          · simp
          · simp [eofErr]; split <;> simp

theorem unmarshalBinary_ne_oob (o : KV) (data : Bytes) : unmarshalBinary o data ≠ .oob := by
  unfold unmarshalBinary
  cases h : unmarshal o data with
  | oob => exact absurd h (unmarshal_ne_oob o data)
  | ok i o' => simp only; split <;> simp
  | err e o' => simp

#print axioms unmarshalBinary_ne_oob
end Codec
