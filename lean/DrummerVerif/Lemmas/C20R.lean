import DrummerVerif.Model.Codec
/-! C20 prototype: the varint round trip, the risky core of the codec round trip -/
namespace Codec

theorem or_eq_add (acc v s : Nat) (h : acc < 2 ^ s) : acc ||| v * 2 ^ s = acc + v * 2 ^ s := by
  rw [Nat.or_comm, Nat.mul_comm, ← Nat.two_pow_add_eq_or_of_lt h, Nat.add_comm]

theorem shl64_small (b s : Nat) (h : b * 2 ^ s < 18446744073709551616) (hs : s < 64) : shl64 b s = b * 2 ^ s := by
  unfold shl64
  have : ¬ s ≥ 64 := by omega
  simp only [this, if_false]
  exact Nat.mod_eq_of_lt h

theorem getElem?_mid (pre rest : Bytes) (b : UInt8) (tl : Bytes) :
    (pre ++ (b :: tl) ++ rest)[pre.length]? = some b := by
  simp [List.getElem?_append_right]

theorem split_x (x P : Nat) : x % 128 * P + x / 128 * (P * 128) = x * P := by
  have h := Nat.div_add_mod x 128
  calc x % 128 * P + x / 128 * (P * 128) = (128 * (x / 128) + x % 128) * P := by
        rw [Nat.add_mul, Nat.add_comm]; congr 1; rw [Nat.mul_comm P 128, ← Nat.mul_assoc, Nat.mul_comm (x / 128) 128]
    _ = x * P := by rw [h]

theorem encVar_ge (x : Nat) (h : x ≥ 128) : encVar x = UInt8.ofNat (x % 128 + 128) :: encVar (x / 128) := by
  rw [encVar]; simp [h]
theorem encVar_lt (x : Nat) (h : ¬ x ≥ 128) : encVar x = [UInt8.ofNat x] := by
  rw [encVar]; simp [h]
theorem varLen_ge (x : Nat) (h : x ≥ 128) : varLen x = 1 + varLen (x / 128) := by
  rw [varLen]; simp [h]
theorem varLen_lt (x : Nat) (h : ¬ x ≥ 128) : varLen x = 1 := by
  rw [varLen]; simp [h]

/-- the continuation loop decodes what `encVar` wrote, wherever it sits in the buffer -/
theorem decLoop_encVar : ∀ (x acc shift fuel : Nat) (pre rest : Bytes), acc < 2 ^ shift → shift < 64 →
    x * 2 ^ shift < 2 ^ 63 → fuel ≥ varLen x →
    decLoop (pre ++ encVar x ++ rest) fuel acc shift pre.length = some (acc + x * 2 ^ shift, pre.length + varLen x) := by
  intro x
  induction x using Nat.strongRecOn with
  | _ x ih =>
    intro acc shift fuel pre rest hacc hs hx hfuel
    by_cases hge : x ≥ 128
    · rw [encVar_ge x hge, varLen_ge x hge] at *
      cases fuel with
      | zero => omega
      | succ fuel =>
        unfold decLoop
        rw [getElem?_mid]
        have hb : (UInt8.ofNat (x % 128 + 128)).toNat = x % 128 + 128 := by
          simp [UInt8.toNat_ofNat']; omega
        have hnot : ¬ (x % 128 + 128 < 128) := by omega
        simp only [hb, hnot, if_false]
        have hmod : (x % 128 + 128) % 128 = x % 128 := by omega
        rw [hmod]
        have hP : 2 ^ (shift + 7) = 2 ^ shift * 128 := by rw [Nat.pow_add]
        have hlow : x % 128 * 2 ^ shift < 2 ^ (shift + 7) := by
          rw [hP, Nat.mul_comm]; exact Nat.mul_lt_mul_of_pos_left (Nat.mod_lt _ (by omega)) (Nat.two_pow_pos _)
        have hle : x % 128 * 2 ^ shift ≤ x * 2 ^ shift := Nat.mul_le_mul_right _ (Nat.mod_le _ _)
        rw [shl64_small _ _ (by omega) (by omega), or_eq_add _ _ _ hacc]
        have hpre : pre ++ (UInt8.ofNat (x % 128 + 128) :: encVar (x / 128)) ++ rest =
            (pre ++ [UInt8.ofNat (x % 128 + 128)]) ++ encVar (x / 128) ++ rest := by simp
        have hlen : pre.length + 1 = (pre ++ [UInt8.ofNat (x % 128 + 128)]).length := by simp
        rw [hpre, hlen]
        have hsplit := split_x x (2 ^ shift)
        have h127 : x % 128 * 2 ^ shift ≤ 127 * 2 ^ shift := Nat.mul_le_mul_right _ (by omega)
        have hsh : shift + 7 < 63 := by
          have h1 : 128 * 2 ^ shift ≤ x * 2 ^ shift := Nat.mul_le_mul_right _ hge
          have h2 : 2 ^ (shift + 7) < 2 ^ 63 := by rw [hP]; omega
          exact (Nat.pow_lt_pow_iff_right (by omega)).mp h2
        have hdiv : x / 128 * (2 ^ shift * 128) ≤ x * 2 ^ shift := by
          have := Nat.mul_le_mul_right (2 ^ shift) (Nat.div_mul_le_self x 128)
          rw [Nat.mul_comm (2 ^ shift) 128, ← Nat.mul_assoc]; exact this
        rw [ih (x / 128) (by omega) (acc + x % 128 * 2 ^ shift) (shift + 7) fuel _ rest]
        · simp only [List.length_append, List.length_singleton, hP]
          have e1 : acc + x % 128 * 2 ^ shift + x / 128 * (2 ^ shift * 128) = acc + x * 2 ^ shift := by omega
          have e2 : pre.length + 1 + varLen (x / 128) = pre.length + (1 + varLen (x / 128)) := by omega
          rw [e1, e2]
        · rw [hP]; omega
        · omega
        · rw [hP]; omega
        · omega
    · rw [encVar_lt x hge, varLen_lt x hge] at *
      cases fuel with
      | zero => omega
      | succ fuel =>
        unfold decLoop
        rw [getElem?_mid]
        have hb : (UInt8.ofNat x).toNat = x := by simp [UInt8.toNat_ofNat']; omega
        have hlt : x < 128 := by omega
        simp only [hb, hlt, if_true]
        rw [shl64_small _ _ (by omega) (by omega), or_eq_add _ _ _ hacc]

end Codec
namespace Codec

theorem varLen_pos (x : Nat) : 1 ≤ varLen x := by
  by_cases h : x ≥ 128
  · rw [varLen_ge x h]; omega
  · rw [varLen_lt x h]; omega

theorem encVar_length : ∀ (x : Nat), (encVar x).length = varLen x := by
  intro x
  induction x using Nat.strongRecOn with
  | _ x ih =>
    by_cases h : x ≥ 128
    · rw [encVar_ge x h, varLen_ge x h, List.length_cons, ih (x / 128) (by omega)]; omega
    · rw [encVar_lt x h, varLen_lt x h]; rfl

/-- one length-prefixed field, wherever it sits: the decoder returns the bytes, the position after the next header,
    and that header -/
theorem decField_spec (pre b rest : Bytes) (hdr : UInt8) (hn : b.length ≤ sizeMax) :
    decField (pre ++ encVar b.length ++ b ++ hdr :: rest) pre.length =
      .ok b (pre.length + varLen b.length + b.length + 1) hdr := by
  have hvl := encVar_length b.length
  have hsm : sizeMax = 16777216 := by decide
  unfold decField
  by_cases hge : b.length ≥ 128
  · -- multi-byte length
    have henc := encVar_ge b.length hge
    have h0 : (pre ++ encVar b.length ++ b ++ hdr :: rest)[pre.length]? = some (UInt8.ofNat (b.length % 128 + 128)) := by
      rw [henc]; simp [List.getElem?_append_right]
    rw [h0]
    have hb : (UInt8.ofNat (b.length % 128 + 128)).toNat = b.length % 128 + 128 := by
      simp [UInt8.toNat_ofNat']; omega
    have hge' : b.length % 128 + 128 ≥ 128 := by omega
    simp only [hb, hge', if_true]
    have hmod : (b.length % 128 + 128) % 128 = b.length % 128 := by omega
    rw [hmod]
    have hdata : pre ++ encVar b.length ++ b ++ hdr :: rest =
        (pre ++ [UInt8.ofNat (b.length % 128 + 128)]) ++ encVar (b.length / 128) ++ (b ++ hdr :: rest) := by
      rw [henc]; simp
    have hpl : pre.length + 1 = (pre ++ [UInt8.ofNat (b.length % 128 + 128)]).length := by simp
    have hloop := decLoop_encVar (b.length / 128) (b.length % 128) 7
      (pre ++ encVar b.length ++ b ++ hdr :: rest).length (pre ++ [UInt8.ofNat (b.length % 128 + 128)]) (b ++ hdr :: rest)
      (by omega) (by omega) (by omega) (by
        have v := varLen_ge _ hge
        simp only [List.length_append, List.length_cons, hvl]
        omega)
    rw [← hdata, ← hpl] at hloop
    rw [hloop]
    have hval : b.length % 128 + b.length / 128 * 2 ^ 7 = b.length := by omega
    have hpos : pre.length + 1 + varLen (b.length / 128) = pre.length + varLen b.length := by
      rw [varLen_ge _ hge]; omega
    simp only [hval, hpos]
    have hle : ¬ b.length > sizeMax := by omega
    simp only [hle, if_false]
    have hlt : ¬ (pre.length + varLen b.length + b.length ≥ (pre ++ encVar b.length ++ b ++ hdr :: rest).length) := by
      simp only [List.length_append, List.length_cons, hvl]; omega
    simp only [hlt, if_false]
    have hget : (pre ++ encVar b.length ++ b ++ hdr :: rest)[pre.length + varLen b.length + b.length]? = some hdr := by
      have : pre.length + varLen b.length + b.length = (pre ++ encVar b.length ++ b).length := by
        simp only [List.length_append, hvl]
      rw [this]; simp [List.getElem?_append_right]
    rw [hget]
    have hdrop : ((pre ++ encVar b.length ++ b ++ hdr :: rest).drop (pre.length + varLen b.length)).take b.length = b := by
      have : pre.length + varLen b.length = (pre ++ encVar b.length).length := by simp only [List.length_append, hvl]
      rw [this, List.append_assoc (pre ++ encVar b.length), List.drop_left, List.take_left]
    simp only [hdrop]
  · -- single-byte length
    have henc := encVar_lt b.length hge
    have h0 : (pre ++ encVar b.length ++ b ++ hdr :: rest)[pre.length]? = some (UInt8.ofNat b.length) := by
      rw [henc]; simp [List.getElem?_append_right]
    rw [h0]
    have hb : (UInt8.ofNat b.length).toNat = b.length := by simp [UInt8.toNat_ofNat']; omega
    have hlt128 : ¬ b.length ≥ 128 := hge
    simp only [hb, hlt128, if_false]
    have hle : ¬ b.length > sizeMax := by omega
    simp only [hle, if_false]
    have hv1 : varLen b.length = 1 := varLen_lt _ hge
    have hlt : ¬ (pre.length + 1 + b.length ≥ (pre ++ encVar b.length ++ b ++ hdr :: rest).length) := by
      simp only [List.length_append, List.length_cons, hvl, hv1]; omega
    simp only [hlt, if_false]
    have hget : (pre ++ encVar b.length ++ b ++ hdr :: rest)[pre.length + 1 + b.length]? = some hdr := by
      have : pre.length + 1 + b.length = (pre ++ encVar b.length ++ b).length := by
        simp only [List.length_append, hvl, hv1]
      rw [this]; simp [List.getElem?_append_right]
    rw [hget]
    have hdrop : ((pre ++ encVar b.length ++ b ++ hdr :: rest).drop (pre.length + 1)).take b.length = b := by
      have : pre.length + 1 = (pre ++ encVar b.length).length := by simp only [List.length_append, hvl, hv1]
      rw [this, List.append_assoc (pre ++ encVar b.length), List.drop_left, List.take_left]
    simp only [hdrop, hv1]

#print axioms decField_spec
end Codec
namespace Codec

theorem encField_nonempty (hdr : UInt8) (b : Bytes) (h : b ≠ []) : encField hdr b = hdr :: encVar b.length ++ b := by
  unfold encField
  have : b.isEmpty = false := by cases b <;> simp_all
  simp [this]

theorem encField_length (hdr : UInt8) (b : Bytes) (h : b ≠ []) : (encField hdr b).length = 1 + varLen b.length + b.length := by
  rw [encField_nonempty hdr b h]; simp [encVar_length]; omega

theorem decField_at1 (h hdr : UInt8) (b rest : Bytes) (hn : b.length ≤ sizeMax) :
    decField (h :: (encVar b.length ++ (b ++ hdr :: rest))) 1 = .ok b (1 + varLen b.length + b.length + 1) hdr := by
  have := decField_spec [h] b rest hdr hn
  simpa using this

/-- C20 round trip: whatever `marshal` writes below the size limit, `UnmarshalBinary` reads back — the whole buffer is
    consumed and every non-empty field is restored; an empty field leaves the receiver's field untouched -/
theorem unmarshal_marshal (o0 o : KV) (hlen : (marshal o).length < sizeMax) :
    unmarshalBinary o0 (marshal o) = .ok (marshal o).length
      { key := if o.key = [] then o0.key else o.key, val := if o.val = [] then o0.val else o.val } := by
  have hsm : sizeMax = 16777216 := by decide
  by_cases hk : o.key = [] <;> by_cases hv : o.val = []
  · -- both empty
    have hm : marshal o = [0x7f] := by unfold marshal encField; simp [hk, hv]
    rw [hm]; simp only [hk, hv, if_true]
    unfold unmarshalBinary unmarshal
    simp [hsm]
  · -- only val
    have hm : marshal o = 1 :: (encVar o.val.length ++ (o.val ++ 0x7f :: [])) := by
      unfold marshal; rw [encField_nonempty 1 o.val hv]; unfold encField; simp [hk]
    have hl : (marshal o).length = 1 + varLen o.val.length + o.val.length + 1 := by
      rw [hm]; simp [encVar_length]; omega
    have hn : o.val.length ≤ sizeMax := by omega
    have hd := decField_at1 1 0x7f o.val [] hn
    rw [hl] at hlen ⊢
    rw [hm]; simp only [hk, hv, if_true, if_false]
    unfold unmarshalBinary unmarshal
    have h10 : ¬ ((1 : UInt8) = 0) := by decide
    simp [hd, h10, hlen, encVar_length]
    omega
  · -- only key
    have hm : marshal o = 0 :: (encVar o.key.length ++ (o.key ++ 0x7f :: [])) := by
      unfold marshal; rw [encField_nonempty 0 o.key hk]; unfold encField; simp [hv]
    have hl : (marshal o).length = 1 + varLen o.key.length + o.key.length + 1 := by
      rw [hm]; simp [encVar_length]; omega
    have hn : o.key.length ≤ sizeMax := by omega
    have hd := decField_at1 0 0x7f o.key [] hn
    rw [hl] at hlen ⊢
    rw [hm]; simp only [hk, hv, if_true, if_false]
    unfold unmarshalBinary unmarshal
    have h71 : ¬ ((0x7f : UInt8) = 1) := by decide
    simp [hd, h71, hlen, encVar_length]
    omega
  · -- both
    have hm : marshal o = 0 :: (encVar o.key.length ++ (o.key ++ 1 :: (encVar o.val.length ++ (o.val ++ 0x7f :: [])))) := by
      unfold marshal; rw [encField_nonempty 0 o.key hk, encField_nonempty 1 o.val hv]; simp
    have hl : (marshal o).length = 1 + varLen o.key.length + o.key.length + 1 + varLen o.val.length + o.val.length + 1 := by
      rw [hm]; simp [encVar_length]; omega
    have hn : o.key.length ≤ sizeMax := by omega
    have hn2 : o.val.length ≤ sizeMax := by omega
    have hd := decField_at1 0 1 o.key (encVar o.val.length ++ (o.val ++ 0x7f :: [])) hn
    have hd2 := decField_spec (0 :: (encVar o.key.length ++ (o.key ++ [1]))) o.val [] 0x7f hn2
    simp [encVar_length] at hd2
    rw [hl] at hlen ⊢
    rw [hm]; simp only [hk, hv, if_true, if_false]
    unfold unmarshalBinary unmarshal
    have hp : varLen o.key.length + (o.key.length + 1) + 1 = 1 + varLen o.key.length + o.key.length + 1 := by omega
    rw [hp] at hd2
    simp [hd, hd2, hlen, encVar_length]
    omega

end Codec

namespace Codec
#print axioms unmarshal_marshal

/-- with a fresh receiver the round trip is the identity -/
theorem roundtrip_fresh (o : KV) (hlen : (marshal o).length < sizeMax) :
    unmarshalBinary {} (marshal o) = .ok (marshal o).length o := by
  rw [unmarshal_marshal {} o hlen]
  cases o with
  | mk k v => by_cases hk : k = [] <;> by_cases hv : v = [] <;> simp [hk, hv]

theorem isEmpty_false_of_ne (b : Bytes) (h : b ≠ []) : b.isEmpty = false := by cases b <;> simp_all

/-- `MarshalLen` is the length of what `MarshalTo` writes -/
theorem marshalLen_eq (o : KV) (n : Nat) (h : marshalLen o = .ok n) : n = (marshal o).length := by
  have key : ∀ (l : Nat), (if l > sizeMax then LenRes.max else LenRes.ok l) = LenRes.ok n → n = l := by
    intro l hl; split at hl
    · cases hl
    · cases hl; rfl
  unfold marshalLen at h
  by_cases h1 : o.key.length > sizeMax
  · simp [h1] at h
  by_cases h2 : o.val.length > sizeMax
  · simp [h1, h2] at h
  simp only [h1, h2, if_false] at h
  rw [key _ h]
  unfold marshal
  by_cases hk : o.key = [] <;> by_cases hv : o.val = []
  · simp [encField, hk, hv]
  · rw [List.length_append, List.length_append, encField_length 1 o.val hv]
    simp [encField, hk, isEmpty_false_of_ne _ hv]; omega
  · rw [List.length_append, List.length_append, encField_length 0 o.key hk]
    simp [encField, hv, isEmpty_false_of_ne _ hk]; omega
  · rw [List.length_append, List.length_append, encField_length 0 o.key hk, encField_length 1 o.val hv]
    simp [isEmpty_false_of_ne _ hk, isEmpty_false_of_ne _ hv]; omega

#print axioms marshalLen_eq
end Codec
