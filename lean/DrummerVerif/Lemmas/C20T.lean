import DrummerVerif.Lemmas.C20R
/-! C20 prototype: `Unmarshal` on an encoding followed by anything, and `tail_reported` -/
namespace Codec

/-- `Unmarshal` reads exactly the encoding and ignores what follows -/
theorem unmarshal_marshal_append (o0 o : KV) (suf : Bytes) (hlen : (marshal o).length < sizeMax) :
    unmarshal o0 (marshal o ++ suf) = .ok (marshal o).length
      { key := if o.key = [] then o0.key else o.key, val := if o.val = [] then o0.val else o.val } := by
  have hsm : sizeMax = 16777216 := by decide
  by_cases hk : o.key = [] <;> by_cases hv : o.val = []
  · have hm : marshal o = [0x7f] := by unfold marshal encField; simp [hk, hv]
    rw [hm]; simp only [hk, hv, if_true]
    unfold unmarshal
    simp [hsm]
  · have hm : marshal o = 1 :: (encVar o.val.length ++ (o.val ++ 0x7f :: [])) := by
      unfold marshal; rw [encField_nonempty 1 o.val hv]; unfold encField; simp [hk]
    have hl : (marshal o).length = 1 + varLen o.val.length + o.val.length + 1 := by
      rw [hm]; simp [encVar_length]; omega
    have hn : o.val.length ≤ sizeMax := by omega
    have hd := decField_at1 1 0x7f o.val suf hn
    rw [hl] at hlen ⊢
    rw [hm]; simp only [hk, hv, if_true, if_false]
    unfold unmarshal
    have h10 : ¬ ((1 : UInt8) = 0) := by decide
    simp [hd, h10, hlen]
  · have hm : marshal o = 0 :: (encVar o.key.length ++ (o.key ++ 0x7f :: [])) := by
      unfold marshal; rw [encField_nonempty 0 o.key hk]; unfold encField; simp [hv]
    have hl : (marshal o).length = 1 + varLen o.key.length + o.key.length + 1 := by
      rw [hm]; simp [encVar_length]; omega
    have hn : o.key.length ≤ sizeMax := by omega
    have hd := decField_at1 0 0x7f o.key suf hn
    rw [hl] at hlen ⊢
    rw [hm]; simp only [hk, hv, if_true, if_false]
    unfold unmarshal
    have h71 : ¬ ((0x7f : UInt8) = 1) := by decide
    simp [hd, h71, hlen]
  · have hm : marshal o = 0 :: (encVar o.key.length ++ (o.key ++ 1 :: (encVar o.val.length ++ (o.val ++ 0x7f :: [])))) := by
      unfold marshal; rw [encField_nonempty 0 o.key hk, encField_nonempty 1 o.val hv]; simp
    have hl : (marshal o).length = 1 + varLen o.key.length + o.key.length + 1 + varLen o.val.length + o.val.length + 1 := by
      rw [hm]; simp [encVar_length]; omega
    have hn : o.key.length ≤ sizeMax := by omega
    have hn2 : o.val.length ≤ sizeMax := by omega
    have hd := decField_at1 0 1 o.key (encVar o.val.length ++ (o.val ++ 0x7f :: suf)) hn
    have hd2 := decField_spec (0 :: (encVar o.key.length ++ (o.key ++ [1]))) o.val suf 0x7f hn2
    simp [encVar_length] at hd2
    have hp : varLen o.key.length + (o.key.length + 1) + 1 = 1 + varLen o.key.length + o.key.length + 1 := by omega
    rw [hp] at hd2
    rw [hl] at hlen ⊢
    rw [hm]; simp only [hk, hv, if_true, if_false]
    unfold unmarshal
    simp [hd, hd2, hlen]

/-- C20 `tail_reported`: a valid encoding followed by any non-empty suffix is reported as `ColferTail` at the encoded
    length (with the decoded pair already in the receiver) -/
theorem tail_reported (o0 o : KV) (suf : Bytes) (hs : suf ≠ []) (hlen : (marshal o).length < sizeMax) :
    unmarshalBinary o0 (marshal o ++ suf) = .err (.tail (marshal o).length)
      { key := if o.key = [] then o0.key else o.key, val := if o.val = [] then o0.val else o.val } := by
  unfold unmarshalBinary
  rw [unmarshal_marshal_append o0 o suf hlen]
  have : suf.length > 0 := by cases suf <;> simp_all
  simp only [List.length_append]
  have hlt : (marshal o).length < (marshal o).length + suf.length := by omega
  simp [hlt]

#print axioms tail_reported
end Codec
