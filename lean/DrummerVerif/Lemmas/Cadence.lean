import DrummerVerif.Lemmas.C01P
/-! C01 / C11: the timing premise of the quiet-run theorems, discharged for bounded windows. `Fresh d s`: every member
    record carries a positive report time at most `s` old. Reports, executions, catch-up and (empty) rounds keep it; a tick
    ages it by the fixed step. So from a settled state that is `Fresh s`, along ANY sequence of fault-free events with at
    most `k` ticks where `s + k * tickInterval ≤ nodeHostTTL`, every scheduling round finds every member healthy - no
    premise about the rounds is needed. (Reports renew the window: `running_member_is_recorded_as_reported_now`.) -/
namespace Drummer

def DB.Fresh (d : DB) (s : Nat) : Prop :=
  ∀ c ∈ d.image.shards, ∀ r ∈ c.replicas, 0 < r.tick ∧ r.tick ≤ d.tick ∧ d.tick - r.tick ≤ s

theorem fresh_mono (d : DB) (s s' : Nat) (h : s ≤ s') (hf : d.Fresh s) : d.Fresh s' := by
  intro c hc r hr
  obtain ⟨h1, h2, h3⟩ := hf c hc r hr
  exact ⟨h1, h2, by omega⟩

theorem fresh_healthy (d : DB) (s : Nat) (hf : d.Fresh s) (hs : s ≤ nodeHostTTL) (hw : d.tick < 18446744073709551616) :
    d.AllHealthy :=
  recently_reported_is_healthy d hw (fun c hc r hr => by
    obtain ⟨h1, h2, h3⟩ := hf c hc r hr
    exact ⟨h1, h2, by omega⟩)

theorem fresh_tick (d d' : DB) (n : Nat) (s : Nat) (h : d.applyTick = .ok (d', n)) (hf : d.Fresh s) :
    d'.Fresh (s + tickInterval) := by
  unfold DB.applyTick at h
  simp only at h
  split at h
  · cases h
  · cases h
    intro c hc r hr
    obtain ⟨h1, h2, h3⟩ := hf c hc r hr
    exact ⟨h1, by show r.tick ≤ d.tick + tickInterval; omega, by show d.tick + tickInterval - r.tick ≤ s + tickInterval; omega⟩

/-- a report on a settled fleet keeps every record fresh (it only re-stamps records with the current time) -/
theorem report_fresh (l l' : Loop) (a : Addr) (lost : Bool) (n : Nat) (s : Nat) (hs : l.Settled) (hpos : 0 < l.db.tick)
    (hf : l.db.Fresh s) (h : l.report a lost = .ok (l', n)) : l'.db.Fresh s ∧ l'.db.tick = l.db.tick := by
  unfold Loop.report at h
  cases hh : l.host? a with
  | none => simp [hh] at h
  | some h0 =>
    simp only [hh] at h
    cases ha : l.db.applyReport (l.buildReport { h0 with reportCount := h0.reportCount + 1 } (h0.reportCount + 1)) with
    | panic w => simp [ha] at h
    | ok p =>
      obtain ⟨db2, n2⟩ := p
      simp only [ha, Outcome.ok.injEq, Prod.mk.injEq] at h
      obtain ⟨rfl, _⟩ := h
      have hmem : h0 ∈ l.hosts := by unfold Loop.host? at hh; exact List.mem_of_find?_eq_some hh
      have hcur := buildReport_current l hs { h0 with reportCount := h0.reportCount + 1 } (hs.running h0 hmem) (h0.reportCount + 1)
      have hu := applyReport_image l.db db2 _ n2 ha
      have hcur' : ∀ ci ∈ ({ (l.buildReport { h0 with reportCount := h0.reportCount + 1 } (h0.reportCount + 1)) with
          lastTick := l.db.tick } : NodeHostInfo).shardInfo, ci.Current l.db.image := hcur
      obtain ⟨hQ, _, _⟩ := update_current_spec l.db.image db2.image _ hcur' hu
      have htick : db2.tick = l.db.tick := applyReport_tick l.db db2 _ n2 ha
      have hdb : (({ l with db := db2 } : Loop).setHost
          (if lost = true then { h0 with reportCount := h0.reportCount + 1 }
           else { h0 with reportCount := h0.reportCount + 1, queue := h0.queue ++ db2.lookupRequests a })).db = db2 := rfl
      rw [hdb]
      refine ⟨?_, htick⟩
      intro c hc r hr
      rw [htick]
      have := hQ (fun c => ∀ r ∈ c.replicas, 0 < r.tick ∧ r.tick ≤ l.db.tick ∧ l.db.tick - r.tick ≤ s) ?_ hf c hc r hr
      · exact this
      · intro c f hT hq r hr
        simp only [List.mem_map] at hr
        obtain ⟨r0, hr0, rfl⟩ := hr
        obtain ⟨h1, h2, h3⟩ := hq r0 hr0
        rcases hT r0 with e | e | ⟨b, e⟩
        · rw [e]; exact ⟨h1, h2, h3⟩
        · rw [e]; exact ⟨hpos, Nat.le_refl _, by simp⟩
        · rw [e]; exact ⟨h1, h2, h3⟩

/-- fault-free events, the scheduling rounds without any premise; the second index counts the ticks -/
inductive WindowStep : Loop → Loop → Nat → Prop
  | tick (l : Loop) (db' : DB) (n : Nat) : l.db.applyTick = .ok (db', n) → WindowStep l { l with db := db' } 1
  | report (l l' : Loop) (a : Addr) (lost : Bool) (n : Nat) : l.report a lost = .ok (l', n) → WindowStep l l' 0
  | execute (l : Loop) (a : Addr) : WindowStep l (l.execute a) 0
  | progress (l : Loop) (a : Addr) (all : Bool) : WindowStep l (l.progress a all) 0
  | schedule (l : Loop) (cx : Ctx) (draws rest : List Nat) (rs : List Request) (db' : DB) (n : Nat) :
      CtxExact l.db cx → maintain cx draws = .ok rs rest → l.db.applyRequests rs = .ok (db', n) →
      WindowStep l { l with db := db' } 0

inductive WindowSteps : Loop → Loop → Nat → Prop
  | refl (l : Loop) : WindowSteps l l 0
  | tail (l l' l'' : Loop) (k j : Nat) : WindowSteps l l' k → WindowStep l' l'' j → WindowSteps l l'' (k + j)

/-- one event inside the window is a `QuietStep`, and ages the records by at most the ticks it contains -/
theorem window_step (l l' : Loop) (j s : Nat) (hs : l.Settled) (hpos : 0 < l.db.tick) (hf : l.db.Fresh s)
    (hs' : s ≤ nodeHostTTL) (hw : l.db.tick < 18446744073709551616) (h : WindowStep l l' j) :
    QuietStep l l' ∧ l'.db.Fresh (s + j * tickInterval) ∧ 0 < l'.db.tick := by
  cases h with
  | tick db' n ht =>
    refine ⟨.tick l db' n ht, by simpa using fresh_tick l.db db' n s ht hf, ?_⟩
    unfold DB.applyTick at ht
    simp only at ht
    split at ht
    · cases ht
    · cases ht; show 0 < l.db.tick + tickInterval; omega
  | report _ a lost n hr =>
    obtain ⟨h1, h2⟩ := report_fresh l l' a lost n s hs hpos hf hr
    exact ⟨.report l l' a lost n hr, by simpa using h1, by rw [h2]; exact hpos⟩
  | execute a =>
    exact ⟨.execute l a, by rw [execute_db]; simpa using hf, by rw [execute_db]; exact hpos⟩
  | progress a all =>
    have hdb : (l.progress a all).db = l.db := by
      unfold Loop.progress
      cases l.host? a <;> rfl
    exact ⟨.progress l a all, by rw [hdb]; simpa using hf, by rw [hdb]; exact hpos⟩
  | schedule cx draws rest rs db' n hcx hm hap =>
    have hh := fresh_healthy l.db s hf hs' hw
    have hrs : rs = [] := by
      have := healthy_round_is_empty l.db cx draws hcx hh hs.noKill
      rw [this] at hm
      cases hm; rfl
    refine ⟨.schedule l cx draws rest rs db' n hcx hh hm hap, ?_, ?_⟩
    · subst hrs
      obtain ⟨hd, _⟩ := empty_round_changes_nothing l.db db' n hap
      subst hd
      simpa using hf
    · subst hrs
      obtain ⟨hd, _⟩ := empty_round_changes_nothing l.db db' n hap
      subst hd
      exact hpos

/-- **the quiet window**: a settled fleet whose member records are at most `s` old goes through ANY sequence of
    fault-free events - scheduling rounds included, with no premise about them - containing `k` ticks; as long as
    `s + k * tickInterval ≤ nodeHostTTL` (and the clock does not wrap) the run is a quiet run: the fleet stays settled,
    does not move, and no request is issued. -/
theorem quiet_window (l l' : Loop) (k s : Nat) (hs : l.Settled) (hpos : 0 < l.db.tick) (hf : l.db.Fresh s)
    (hbound : s + k * tickInterval ≤ nodeHostTTL) (hw : l.db.tick + k * tickInterval < 18446744073709551616)
    (h : WindowSteps l l' k) :
    QuietSteps l l' ∧ l'.Settled ∧ l'.db.Fresh (s + k * tickInterval) ∧ 0 < l'.db.tick ∧
      l'.db.tick ≤ l.db.tick + k * tickInterval := by
  induction h with
  | refl => exact ⟨.refl l, hs, by simpa using hf, hpos, by simp⟩
  | tail la lb k1 j hprev hstep ih =>
    have hb1 : s + k1 * tickInterval ≤ nodeHostTTL := by
      have : (k1 + j) * tickInterval = k1 * tickInterval + j * tickInterval := Nat.add_mul _ _ _
      omega
    have hw1 : l.db.tick + k1 * tickInterval < 18446744073709551616 := by
      have : (k1 + j) * tickInterval = k1 * tickInterval + j * tickInterval := Nat.add_mul _ _ _
      omega
    obtain ⟨hq, hsa, hfa, hposa, hta⟩ := ih hb1 hw1
    have hwa : la.db.tick < 18446744073709551616 := by omega
    obtain ⟨hqs, hfb, hposb⟩ := window_step la lb j (s + k1 * tickInterval) hsa hposa hfa hb1 hwa hstep
    obtain ⟨hsb, _⟩ := quiet_step la lb hsa hqs
    refine ⟨.tail l la lb hq hqs, hsb, ?_, hposb, ?_⟩
    · have : (k1 + j) * tickInterval = k1 * tickInterval + j * tickInterval := Nat.add_mul _ _ _
      rw [this, ← Nat.add_assoc]; exact hfb
    · -- the clock moves by the ticks only
      have : (k1 + j) * tickInterval = k1 * tickInterval + j * tickInterval := Nat.add_mul _ _ _
      cases hstep with
      | tick db' n ht =>
        have : db'.tick = la.db.tick + tickInterval := by
          unfold DB.applyTick at ht
          simp only at ht
          split at ht
          · cases ht
          · cases ht; rfl
        show db'.tick ≤ _
        omega
      | report _ a lost n hr =>
        obtain ⟨_, h2⟩ := report_fresh la lb a lost n (s + k1 * tickInterval) hsa hposa hfa hr
        omega
      | execute a => rw [execute_db]; omega
      | progress a all =>
        have hdb : (la.progress a all).db = la.db := by
          unfold Loop.progress
          cases la.host? a <;> rfl
        rw [hdb]; omega
      | schedule cx draws rest rs db' n hcx hm hap =>
        have hh := fresh_healthy la.db _ hfa hb1 hwa
        have hrs : rs = [] := by
          have := healthy_round_is_empty la.db cx draws hcx hh hsa.noKill
          rw [this] at hm
          cases hm; rfl
        subst hrs
        obtain ⟨hd, _⟩ := empty_round_changes_nothing la.db db' n hap
        subst hd
        show la.db.tick ≤ _
        omega

#print axioms quiet_window
end Drummer
