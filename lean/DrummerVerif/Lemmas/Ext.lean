import DrummerVerif.Lemmas.Anchor
/-! how the group histories grow, and what survives the growth -/
namespace Drummer

/-- `l'` extends the histories of `l`: every group is still there, its old memberships are kept, and a new membership
    knows everything the group's current membership knew -/
structure Ext (l l' : Loop) : Prop where
  grp : ∀ s g, l.group? s = some g → ∃ g', l'.group? s = some g' ∧ (∀ m ∈ g.hist, m ∈ g'.hist) ∧
    (∀ m' ∈ g'.hist, m' ∈ g.hist ∨ (∀ x, g.cur.Known x → m'.Known x))

theorem ext_of_groups_eq (l l' : Loop) (hg : l'.groups = l.groups) : Ext l l' := by
  constructor
  intro s g h
  refine ⟨g, ?_, fun m hm => hm, fun m hm => Or.inl hm⟩
  unfold Loop.group? at h ⊢; rw [hg]; exact h

theorem Ext.refl (l : Loop) : Ext l l := ext_of_groups_eq l l rfl

/-- `Removed` survives extension -/
theorem removed_ext (l l' : Loop) (he : Ext l l') (s r : Nat) (h : l.Removed s r) : l'.Removed s r := by
  obtain ⟨g, hg, m, hm, hr⟩ := h
  obtain ⟨g', hg', hold, _⟩ := he.grp s g hg
  exact ⟨g', hg', m, hold m hm, hr⟩

/-- `Anch` survives extension of the histories and growth of the views -/
theorem anch_ext (defIds : Nat → List Nat) (l l' : Loop) (he : Ext l l') (hn : l.AllNR) (hvv : l.ViewVer)
    (hcov : Covers l.db.image l'.db.image) (s r : Nat) (h : l.Anch defIds s r) : l'.Anch defIds s r := by
  rcases h with h | ⟨g, hg, c, hc, hid, hall⟩
  · exact Or.inl h
  · right
    obtain ⟨g', hg', _, hnew⟩ := he.grp s g hg
    obtain ⟨c', hc', hid', hle⟩ := hcov c hc
    refine ⟨g', hg', c', hc', hid'.trans hid, ?_⟩
    intro m' hm' hver
    rcases hnew m' hm' with hold | hk
    · exact hall m' hold (Nat.le_trans hle hver)
    · apply hk
      obtain ⟨gc, hgc, mc, hmc, hvc⟩ := hvv c hc
      rw [hid, hg] at hgc; cases hgc
      obtain ⟨hgm, _⟩ := group?_mem l s g hg
      exact (hn g hgm).2.known mc hmc r (hall mc hmc (by rw [hvc]; exact Nat.le_refl _))

/-- `DefsKnown` survives extension, for the groups that existed -/
theorem defsKnown_ext (defIds : Nat → List Nat) (l l' : Loop) (he : Ext l l') (hn : l.AllNR) (hdk : l.DefsKnown defIds)
    (s : Nat) (g : Group) (hg : l.group? s = some g) :
    ∀ g', l'.group? s = some g' → ∀ m ∈ g'.hist, ∀ x ∈ defIds s, m.Known x := by
  intro g' hg' m hm x hx
  obtain ⟨g'', hg'', _, hnew⟩ := he.grp s g hg
  rw [hg'] at hg''; cases hg''
  obtain ⟨hgm, _⟩ := group?_mem l s g hg
  rcases hnew m hm with hold | hk
  · exact hdk s g hg m hold x hx
  · exact hk x (hdk s g hg g.cur (cur_mem g (hn g hgm).1) x hx)

/-- a membership change executed on a host extends the histories -/
theorem execChange_ext (l : Loop) (h : Host) (r : Request) (hn : l.AllNR) : Ext l (l.execChange h r) := by
  unfold Loop.execChange
  cases hg : l.group? r.shardId with
  | none => exact Ext.refl l
  | some g =>
    cases hid : r.members.head? with
    | none => exact Ext.refl l
    | some id =>
      simp only
      cases ha : l.changeApplicable h g r with
      | none => exact Ext.refl l
      | some rep =>
        simp only
        cases hc : changeMembers g.cur r id with
        | none => exact Ext.refl l
        | some p =>
          obtain ⟨ms, rm⟩ := p
          simp only
          obtain ⟨hgmem, hgs⟩ := group?_mem l _ g hg
          constructor
          intro s g0 hg0
          have hset : ∀ (X : Loop) (hh : Host), (X.setHost hh).group? s = X.group? s := fun _ _ => rfl
          rw [hset, group?_setGroup]
          by_cases hs : g.shard = s
          · simp only [hs, if_true]
            have : g0 = g := by
              have : l.group? s = some g := by rw [← hs, hgs]; exact hg
              rw [this] at hg0; cases hg0; rfl
            subst this
            refine ⟨_, rfl, fun m hm => List.mem_append.mpr (Or.inl hm), ?_⟩
            intro m' hm'
            simp only [List.mem_append, List.mem_singleton] at hm'
            rcases hm' with hm' | rfl
            · exact Or.inl hm'
            · right
              have hcur := cur_mem g0 (hn g0 hgmem).1
              exact (changeMembers_noReturn g0.cur r id ms rm ((hn g0 hgmem).2.disj _ hcur) hc _).2.2
          · simp only [hs, if_false]
            exact ⟨g0, hg0, fun m hm => hm, fun m hm => Or.inl hm⟩

theorem founded_ext (l l' : Loop) (r : Request) (hf : Founded l l' r) : Ext l l' := by
  constructor
  intro s g hg
  rw [group?_founded l l' r hf]
  by_cases hs : s = r.shardId
  · subst hs; rw [hf.none] at hg; cases hg
  · simp only [hs, if_false]
    exact ⟨g, hg, fun m hm => hm, fun m hm => Or.inl hm⟩

/-- one executed request extends the histories -/
theorem exec1_ext (l : Loop) (a : Addr) (r : Request) (hn : l.AllNR) : Ext l (l.exec1 a r) := by
  unfold Loop.exec1
  cases hh : l.host? a with
  | none => exact Ext.refl l
  | some h =>
    simp only
    cases ht : r.type with
    | create =>
      simp only
      rcases execCreate_cases l h r with ⟨e1, _⟩ | hf
      · exact ext_of_groups_eq l _ e1
      · exact founded_ext l _ r hf
    | kill => simp only; exact ext_of_groups_eq l _ (execKill_groups l h r).1
    | add => simp only; exact execChange_ext l h r hn
    | delete => simp only; exact execChange_ext l h r hn

#print axioms anch_ext
#print axioms exec1_ext
end Drummer
