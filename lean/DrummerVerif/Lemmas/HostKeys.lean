import DrummerVerif.Lemmas.LoopSys
/-! where the replicas a host runs and the data it keeps come from: every event of the fleet only keeps what was
    there, or adds the replica named by the CREATE request it executes -/
namespace Drummer

/-- `(s, r)` is a replica some host of `l` runs or keeps data of -/
def Loop.Hosted (l : Loop) (s r : Nat) : Prop :=
  ∃ x ∈ l.hosts, (∃ rep ∈ x.running, rep.shard = s ∧ rep.id = r) ∨ (∃ e ∈ x.data, e.1 = (s, r))

/-- all replicas run / kept by host `h` are `Hosted` in `l` or are the replica a CREATE request `r` names -/
def Host.KeysFrom (l : Loop) (r : Option Request) (h : Host) : Prop :=
  (∀ rep ∈ h.running, l.Hosted rep.shard rep.id ∨
    ∃ q, r = some q ∧ q.type = .create ∧ rep.shard = q.shardId ∧ rep.id = q.instantiateReplicaId) ∧
  (∀ e ∈ h.data, l.Hosted e.1.1 e.1.2 ∨
    ∃ q, r = some q ∧ q.type = .create ∧ e.1 = (q.shardId, q.instantiateReplicaId))

theorem keysFrom_of_mem (l : Loop) (r : Option Request) (h : Host) (hm : h ∈ l.hosts) : h.KeysFrom l r := by
  constructor
  · intro rep hrep; left; exact ⟨h, hm, Or.inl ⟨rep, hrep, rfl, rfl⟩⟩
  · intro e he; left; exact ⟨h, hm, Or.inr ⟨e, he, rfl⟩⟩

theorem mem_setRun (h : Host) (r x : SimReplica) (hx : x ∈ (h.setRun r).running) : x = r ∨ x ∈ h.running := by
  unfold Host.setRun at hx
  simp only [List.mem_cons, List.mem_filter] at hx
  rcases hx with hx | ⟨hx, _⟩
  · exact Or.inl hx
  · exact Or.inr hx

theorem setRun_data (h : Host) (r : SimReplica) : (h.setRun r).data = h.data := rfl
theorem dataPut_running (h : Host) (s r : Nat) (v : Int) : (h.dataPut s r v).running = h.running := rfl
theorem dataDel_running (h : Host) (s r : Nat) : (h.dataDel s r).running = h.running := rfl

theorem mem_dataPut (h : Host) (s r : Nat) (v : Int) (e : (Nat × Nat) × Int) (he : e ∈ (h.dataPut s r v).data) :
    e.1 = (s, r) ∨ e ∈ h.data := by
  unfold Host.dataPut at he
  simp only [List.mem_cons, List.mem_filter] at he
  rcases he with he | ⟨he, _⟩
  · left; rw [he]
  · exact Or.inr he

theorem mem_dataDel (h : Host) (s r : Nat) (e : (Nat × Nat) × Int) (he : e ∈ (h.dataDel s r).data) : e ∈ h.data := by
  unfold Host.dataDel at he
  exact (List.mem_filter.mp he).1

/-- a host of the loop with a replica started (or restarted) and its data record written: keys from before or `(s, r)` -/
theorem keysFrom_start (l : Loop) (q : Request) (h : Host) (hm : h ∈ l.hosts) (ap v : Int) (hc : q.type = .create) :
    ((h.setRun ⟨q.shardId, q.instantiateReplicaId, ap⟩).dataPut q.shardId q.instantiateReplicaId v).KeysFrom l (some q) ∧
    (h.setRun ⟨q.shardId, q.instantiateReplicaId, ap⟩).KeysFrom l (some q) := by
  have base := keysFrom_of_mem l (some q) h hm
  refine ⟨⟨?_, ?_⟩, ⟨?_, ?_⟩⟩
  · intro rep hrep
    rw [dataPut_running] at hrep
    rcases mem_setRun _ _ _ hrep with rfl | hrep
    · right; exact ⟨q, rfl, hc, rfl, rfl⟩
    · exact base.1 rep hrep
  · intro e he
    rcases mem_dataPut _ _ _ _ _ he with he | he
    · right; exact ⟨q, rfl, hc, he⟩
    · rw [setRun_data] at he; exact base.2 e he
  · intro rep hrep
    rcases mem_setRun _ _ _ hrep with rfl | hrep
    · right; exact ⟨q, rfl, hc, rfl, rfl⟩
    · exact base.1 rep hrep
  · intro e he; rw [setRun_data] at he; exact base.2 e he

end Drummer

namespace Drummer

theorem run?_mem (h : Host) (s : Nat) (rep : SimReplica) (hr : h.run? s = some rep) : rep ∈ h.running ∧ rep.shard = s := by
  unfold Host.run? at hr
  exact ⟨List.mem_of_find?_eq_some hr, by simpa using List.find?_some hr⟩

theorem keysFrom_hosts_setHost (l X : Loop) (q : Option Request) (h' : Host) (hX : X.hosts = l.hosts)
    (hk : h'.KeysFrom l q) : ∀ x ∈ (X.setHost h').hosts, x.KeysFrom l q := by
  intro x hx
  rcases mem_setHost X h' x hx with rfl | hx
  · exact hk
  · rw [hX] at hx; exact keysFrom_of_mem l q x hx

theorem execCreate_keys (l : Loop) (h : Host) (r : Request) (hm : h ∈ l.hosts) (hc : r.type = .create) :
    ∀ x ∈ (l.execCreate h r).hosts, x.KeysFrom l (some r) := by
  unfold Loop.execCreate
  simp only
  split
  · exact fun x hx => keysFrom_of_mem l _ x hx
  · split
    · split
      · exact fun x hx => keysFrom_of_mem l _ x hx
      · exact keysFrom_hosts_setHost l l _ _ rfl (keysFrom_start l r h hm _ 0 hc).2
    · split
      · exact keysFrom_hosts_setHost l l _ _ rfl (keysFrom_start l r h hm _ _ hc).1
      · split
        · exact fun x hx => keysFrom_of_mem l _ x hx
        · split
          · exact keysFrom_hosts_setHost l l _ _ rfl (keysFrom_start l r h hm _ _ hc).1
          · exact keysFrom_hosts_setHost l _ _ _ (setGroup_hosts _ _) (keysFrom_start l r h hm _ _ hc).1

theorem execKill_keys (l : Loop) (h : Host) (r : Request) (hm : h ∈ l.hosts) :
    ∀ x ∈ (l.execKill h r).hosts, x.KeysFrom l (some r) := by
  unfold Loop.execKill
  split
  · split
    · apply keysFrom_hosts_setHost l l _ _ rfl
      have base := keysFrom_of_mem l (some r) h hm
      constructor
      · intro rep hrep
        rw [dataDel_running] at hrep
        exact base.1 rep (List.mem_filter.mp hrep).1
      · intro e he
        exact base.2 e (mem_dataDel _ _ _ e he)
    · exact fun x hx => keysFrom_of_mem l _ x hx
  · exact fun x hx => keysFrom_of_mem l _ x hx

theorem execChange_keys (l : Loop) (h : Host) (r : Request) (hm : h ∈ l.hosts) :
    ∀ x ∈ (l.execChange h r).hosts, x.KeysFrom l (some r) := by
  unfold Loop.execChange
  cases hg : l.group? r.shardId with
  | none => exact fun x hx => keysFrom_of_mem l _ x hx
  | some g =>
    cases hid : r.members.head? with
    | none => exact fun x hx => keysFrom_of_mem l _ x hx
    | some id =>
      simp only
      cases ha : l.changeApplicable h g r with
      | none => exact fun x hx => keysFrom_of_mem l _ x hx
      | some rep =>
        simp only
        cases hcm : changeMembers g.cur r id with
        | none => exact fun x hx => keysFrom_of_mem l _ x hx
        | some p =>
          obtain ⟨ms, rm⟩ := p
          simp only
          have hrep : rep ∈ h.running ∧ rep.shard = r.shardId := by
            unfold Loop.changeApplicable at ha
            cases hr : h.run? r.shardId with
            | none => simp [hr] at ha
            | some rep' =>
              simp only [hr] at ha
              split at ha
              · cases ha
              · split at ha
                · cases ha
                · cases ha; exact run?_mem h _ _ hr
          apply keysFrom_hosts_setHost l _ _ _ (setGroup_hosts ({ l with nextVer := l.nextVer + 1 } : Loop) _)
          have base := keysFrom_of_mem l (some r) h hm
          constructor
          · intro x hx
            rw [dataPut_running] at hx
            rcases mem_setRun _ _ _ hx with rfl | hx
            · left; exact ⟨h, hm, Or.inl ⟨rep, hrep.1, rfl, rfl⟩⟩
            · exact base.1 x hx
          · intro e he
            rcases mem_dataPut _ _ _ _ _ he with he | he
            · left; rw [he]; exact ⟨h, hm, Or.inl ⟨rep, hrep.1, hrep.2, rfl⟩⟩
            · rw [setRun_data] at he; exact base.2 e he

/-- one executed request: every host afterwards runs / keeps what some host ran / kept before, or the replica the
    executed CREATE request names -/
theorem exec1_keys (l : Loop) (a : Addr) (r : Request) : ∀ x ∈ (l.exec1 a r).hosts, x.KeysFrom l (some r) := by
  unfold Loop.exec1
  cases hh : l.host? a with
  | none => exact fun x hx => keysFrom_of_mem l _ x hx
  | some h =>
    simp only
    have hm := host?_mem l a h hh
    cases ht : r.type with
    | create => exact execCreate_keys l h r hm ht
    | kill => exact execKill_keys l h r hm
    | add => exact execChange_keys l h r hm
    | delete => exact execChange_keys l h r hm

#print axioms exec1_keys
end Drummer
