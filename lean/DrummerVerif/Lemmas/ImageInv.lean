import DrummerVerif.Model.Db
/-! generic per-shard invariant preservation through `MultiShard.update` -/
namespace Drummer

theorem mem_put (mc : MultiShard) (c x : Shard) :
    x ∈ (mc.put c).shards ↔ x = c ∨ (x ∈ mc.shards ∧ x.shardId ≠ c.shardId) := by
  unfold MultiShard.put
  simp only [List.mem_cons, List.mem_filter, bne_iff_ne, ne_eq]

theorem put_toKill (mc : MultiShard) (c : Shard) : (mc.put c).toKill = mc.toKill := rfl

theorem find?_mem (mc : MultiShard) (sid : Nat) (c : Shard) (h : mc.find? sid = some c) :
    c ∈ mc.shards ∧ c.shardId = sid := by
  unfold MultiShard.find? at h
  have := List.find?_some h
  exact ⟨List.mem_of_find?_eq_some h, by simpa using this⟩

/-- a per-shard predicate that `getShard` establishes and `sync` preserves is preserved by one loop iteration -/
theorem doUpdate1_inv (Q : Shard → Prop) (t : Nat) (mc mc' : MultiShard) (ci : ShardInfo) (k : Bool)
    (hget : ¬ (ci.pending || ci.incomplete) = true → Q (getShard ci t))
    (hsync : ¬ (ci.pending || ci.incomplete) = true → ∀ c rej c', c ∈ mc.shards → c.shardId = ci.shardId → Q c → c.sync ci t = .ok (rej, c') → Q c')
    (hinv : ∀ c ∈ mc.shards, Q c)
    (h : doUpdate1 t mc ci = .ok (mc', k)) : ∀ c ∈ mc'.shards, Q c := by
  unfold doUpdate1 at h
  cases hf : mc.find? ci.shardId with
  | none =>
    simp only [hf] at h
    by_cases hp : (ci.pending || ci.incomplete) = true
    · simp only [hp, if_true] at h; cases h; exact hinv
    · simp only [hp] at h
      cases h
      intro c hc
      rcases (mem_put _ _ _).mp hc with rfl | ⟨hm, _⟩
      · exact hget hp
      · exact hinv c hm
  | some ec =>
    simp only [hf] at h
    by_cases hp : (ci.pending || ci.incomplete) = true
    · simp only [hp, if_true] at h; cases h; exact hinv
    · simp only [hp] at h
      cases hs : ec.sync ci t with
      | panic w => simp [hs] at h
      | ok p =>
        obtain ⟨rej, ec'⟩ := p
        simp only [hs] at h
        cases h
        intro c hc
        rcases (mem_put _ _ _).mp hc with rfl | ⟨hm, _⟩
        · exact hsync hp ec rej _ (find?_mem _ _ _ hf).1 (find?_mem _ _ _ hf).2 (hinv ec (find?_mem _ _ _ hf).1) hs
        · exact hinv c hm

theorem doUpdateLoop_inv (Q : Shard → Prop) (t : Nat) : ∀ (infos : List ShardInfo) (mc mc' : MultiShard) (acc out : List ShardInfo),
    (∀ ci ∈ infos, ¬ (ci.pending || ci.incomplete) = true → Q (getShard ci t)) →
    (∀ ci ∈ infos, ¬ (ci.pending || ci.incomplete) = true → ∀ c rej c', c.shardId = ci.shardId → Q c → c.sync ci t = .ok (rej, c') → Q c') →
    (∀ c ∈ mc.shards, Q c) →
    doUpdateLoop t mc infos acc = .ok (mc', out) → ∀ c ∈ mc'.shards, Q c := by
  intro infos
  induction infos with
  | nil => intro mc mc' acc out _ _ hinv h; simp [doUpdateLoop] at h; obtain ⟨rfl, _⟩ := h; exact hinv
  | cons ci rest ih =>
    intro mc mc' acc out hget hsync hinv h
    unfold doUpdateLoop at h
    cases h1 : doUpdate1 t mc ci with
    | panic w => simp [h1] at h
    | ok p =>
      obtain ⟨mc1, k⟩ := p
      simp only [h1] at h
      have hinv1 := doUpdate1_inv Q t mc mc1 ci k (hget ci (by simp))
        (fun hp c rej c' _ hid hq hs => hsync ci (by simp) hp c rej c' hid hq hs) hinv h1
      exact ih mc1 mc' _ out (fun x hx => hget x (by simp [hx])) (fun x hx => hsync x (by simp [hx])) hinv1 h

/-! ### instance: every stored tick is ≤ the tick of the report being processed (C05 `stored_le_now`) -/

def Shard.ticksLe (now : Nat) (c : Shard) : Prop := ∀ r ∈ c.replicas, r.tick ≤ now ∧ r.firstObserved ≤ now

theorem getShard_ticksLe (ci : ShardInfo) (t : Nat) : (getShard ci t).ticksLe t := by
  intro r hr
  unfold getShard at hr
  simp only [List.mem_map] at hr
  obtain ⟨p, _, rfl⟩ := hr
  simp

theorem sync_ticksLe (c c' : Shard) (ci : ShardInfo) (t : Nat) (rej : Bool) (hq : c.ticksLe t)
    (hs : c.sync ci t = .ok (rej, c')) : c'.ticksLe t := by
  unfold Shard.sync at hs
  by_cases h1 : c.cci > ci.cci
  · simp only [h1, if_true] at hs; cases hs; exact hq
  · simp only [h1, if_false] at hs
    split at hs
    · cases hs
    · split at hs
      · cases hs
      · split at hs
        · cases hs
        · split at hs
          · cases hs
          · cases hs
            intro r hr
            simp only [List.mem_append, List.mem_filter, List.mem_map] at hr
            rcases hr with ⟨hm, _⟩ | ⟨p, _, rfl⟩
            · exact hq r hm
            · simp

#print axioms doUpdateLoop_inv
#print axioms sync_ticksLe
end Drummer
