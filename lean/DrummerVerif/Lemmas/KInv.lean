import DrummerVerif.Lemmas.Ext
/-! the invariant behind C11 `member_never_killed` in the closed loop, through the execution of requests -/
namespace Drummer

/-- what Drummer's requests guarantee about the replicas they name -/
structure ReqFacts (defIds : Nat → List Nat) (l : Loop) (r : Request) : Prop where
  anch : r.type = .create → (r.join = true ∨ r.restore = true) → l.Anch defIds r.shardId r.instantiateReplicaId
  launch : r.type = .create → r.join = false → r.restore = false →
    r.instantiateReplicaId ∈ defIds r.shardId ∧ (r.replicaIdList.zip r.addressList).map (·.1) = defIds r.shardId
  kill : r.type = .kill → ∀ id, r.members.head? = some id → l.Removed r.shardId id

theorem reqFacts_ext (defIds : Nat → List Nat) (l l' : Loop) (he : Ext l l') (hn : l.AllNR) (hvv : l.ViewVer)
    (hcov : Covers l.db.image l'.db.image) (r : Request) (h : ReqFacts defIds l r) : ReqFacts defIds l' r :=
  ⟨fun ht hj => anch_ext defIds l l' he hn hvv hcov _ _ (h.anch ht hj), h.launch,
   fun ht id hid => removed_ext l l' he _ _ (h.kill ht id hid)⟩

theorem verIn_ext (l l' : Loop) (he : Ext l l') (s v : Nat) (h : VerIn l s v) : VerIn l' s v := by
  obtain ⟨g, hg, m, hm, hv⟩ := h
  obtain ⟨g', hg', hold, _⟩ := he.grp s g hg
  exact ⟨g', hg', m, hold m hm, hv⟩

/-- the part of the invariant that is about replicas, views and kill entries -/
structure KCore (defIds : Nat → List Nat) (l : Loop) : Prop where
  vv : l.ViewVer
  dk : l.DefsKnown defIds
  hosted : ∀ s r, l.Hosted s r → l.Anch defIds s r
  kills : ∀ k ∈ l.db.image.toKill, l.Removed k.shardId k.replicaId

/-- a group that appears through one executed request was founded by it -/
theorem exec1_group_new (l : Loop) (a : Addr) (r : Request) (s : Nat) (g' : Group)
    (hnew : (l.exec1 a r).group? s = some g') (hnone : l.group? s = none) :
    r.type = .create ∧ Founded l (l.exec1 a r) r ∧ s = r.shardId := by
  unfold Loop.exec1 at hnew ⊢
  cases hh : l.host? a with
  | none => simp only [hh] at hnew; rw [hnone] at hnew; cases hnew
  | some h =>
    simp only [hh] at hnew ⊢
    cases ht : r.type with
    | create =>
      simp only [ht] at hnew ⊢
      rcases execCreate_cases l h r with ⟨e1, _⟩ | hf
      · have : (l.execCreate h r).group? s = l.group? s := by unfold Loop.group?; rw [e1]
        rw [this, hnone] at hnew; cases hnew
      · refine ⟨trivial, hf, ?_⟩
        rw [group?_founded l _ r hf] at hnew
        by_cases hs : s = r.shardId
        · exact hs
        · simp only [hs, if_false] at hnew; rw [hnone] at hnew; cases hnew
    | kill =>
      simp only [ht] at hnew
      have : (l.execKill h r).group? s = l.group? s := by unfold Loop.group?; rw [(execKill_groups l h r).1]
      rw [this, hnone] at hnew; cases hnew
    | add =>
      simp only [ht] at hnew
      exfalso
      obtain ⟨g, hg, _⟩ := execChange_group l h r s g' hnew
      rw [hnone] at hg; cases hg
    | delete =>
      simp only [ht] at hnew
      exfalso
      obtain ⟨g, hg, _⟩ := execChange_group l h r s g' hnew
      rw [hnone] at hg; cases hg

end Drummer

namespace Drummer

theorem zip_known (ids : List Nat) (addrs : List Addr) (x : Nat) (v : Nat)
    (hx : x ∈ (ids.zip addrs).map (·.1)) :
    ({ ver := v, members := ids.zip addrs, removed := [] } : Membership).Known x := Or.inl hx

/-- `KCore` through one executed request whose facts hold -/
theorem exec1_kcore (defIds : Nat → List Nat) (l : Loop) (a : Addr) (r : Request) (hn : l.AllNR)
    (hk : KCore defIds l) (hr : ReqFacts defIds l r) (hdb : (l.exec1 a r).db = l.db) :
    KCore defIds (l.exec1 a r) := by
  have he := exec1_ext l a r hn
  have hcov : Covers l.db.image (l.exec1 a r).db.image := by rw [hdb]; exact Covers.refl _
  constructor
  · intro c hc
    rw [hdb] at hc
    exact verIn_ext l _ he _ _ (hk.vv c hc)
  · intro s g' hg' m hm x hx
    cases hold : l.group? s with
    | some g => exact defsKnown_ext defIds l _ he hn hk.dk s g hold g' hg' m hm x hx
    | none =>
      obtain ⟨ht, hf, hs⟩ := exec1_group_new l a r s g' hg' hold
      rw [group?_founded l _ r hf, if_pos hs] at hg'
      cases hg'
      simp only [freshGroup, List.mem_singleton] at hm
      subst hm
      obtain ⟨_, hzip⟩ := hr.launch ht hf.boot.1 hf.boot.2
      left
      show x ∈ (r.replicaIdList.zip r.addressList).map (·.1)
      rw [hzip, ← hs]; exact hx
  · intro s rid hh
    obtain ⟨x', hx', hkeys⟩ := hh
    have hfrom := exec1_keys l a r x' hx'
    have hanch : l.Anch defIds s rid := by
      have fromReq : ∀ q, some r = some q → q.type = .create → s = q.shardId → rid = q.instantiateReplicaId →
          l.Anch defIds s rid := by
        intro q hq ht hs hi
        cases hq
        rw [hs, hi]
        by_cases hj : r.join = true ∨ r.restore = true
        · exact hr.anch ht hj
        · have hj1 : r.join = false := by
            cases h1 : r.join with
            | true => exact absurd (Or.inl h1) hj
            | false => rfl
          have hj2 : r.restore = false := by
            cases h2 : r.restore with
            | true => exact absurd (Or.inr h2) hj
            | false => rfl
          exact Or.inl (hr.launch ht hj1 hj2).1
      rcases hkeys with ⟨rep, hrep, hs, hi⟩ | ⟨e, he', hkey⟩
      · rcases hfrom.1 rep hrep with hh | ⟨q, hq, ht, h1, h2⟩
        · rw [← hs, ← hi]; exact hk.hosted _ _ hh
        · exact fromReq q hq ht (by rw [← hs, h1]) (by rw [← hi, h2])
      · rcases hfrom.2 e he' with hh | ⟨q, hq, ht, h1⟩
        · have : (e.1.1, e.1.2) = (s, rid) := by rw [← hkey]
          have h1 : e.1.1 = s := (Prod.mk.inj this).1
          have h2 : e.1.2 = rid := (Prod.mk.inj this).2
          rw [← h1, ← h2]; exact hk.hosted _ _ hh
        · have : (s, rid) = (q.shardId, q.instantiateReplicaId) := by rw [← hkey, h1]
          exact fromReq q hq ht (Prod.mk.inj this).1 (Prod.mk.inj this).2
    exact anch_ext defIds l _ he hn hk.vv hcov s rid hanch
  · intro k hkk
    rw [hdb] at hkk
    exact removed_ext l _ he _ _ (hk.kills k hkk)

#print axioms exec1_kcore
end Drummer

namespace Drummer

/-- `KCore` is inherited by a state with the same groups and views whose hosts run / keep nothing new -/
theorem kcore_of_hosted_sub (defIds : Nat → List Nat) (l l' : Loop) (hn : l.AllNR) (hg : l'.groups = l.groups)
    (hdb : l'.db.image = l.db.image) (hsub : ∀ s r, l'.Hosted s r → l.Hosted s r) (hk : KCore defIds l) : KCore defIds l' := by
  have he := ext_of_groups_eq l l' hg
  have hcov : Covers l.db.image l'.db.image := by rw [hdb]; exact Covers.refl _
  have hgq : ∀ s, l'.group? s = l.group? s := by intro s; unfold Loop.group?; rw [hg]
  constructor
  · intro c hc; rw [hdb] at hc; exact verIn_ext l l' he _ _ (hk.vv c hc)
  · intro s g hgs; rw [hgq] at hgs; exact hk.dk s g hgs
  · intro s r hh; exact anch_ext defIds l l' he hn hk.vv hcov s r (hk.hosted s r (hsub s r hh))
  · intro k hkk; rw [hdb] at hkk; exact removed_ext l l' he _ _ (hk.kills k hkk)

theorem execList_kcore (size : Nat → Nat) (defIds : Nat → List Nat) (a : Addr) : ∀ (q : List Request) (l : Loop),
    StateInv size l → l.AllNR → KCore defIds l → (∀ r ∈ q, ExecOK size l r ∧ ReqFacts defIds l r) →
    KCore defIds (q.foldl (fun l r => l.exec1 a r) l) ∧
    (∀ r', ReqFacts defIds l r' → ReqFacts defIds (q.foldl (fun l r => l.exec1 a r) l) r') := by
  intro q
  induction q with
  | nil => intro l _ _ hk _; exact ⟨hk, fun _ h => h⟩
  | cons r rest ih =>
    intro l hst hn hk hq
    simp only [List.foldl_cons]
    obtain ⟨hok, hrf⟩ := hq r (by simp)
    obtain ⟨h1, h2, _, h4⟩ := exec1_inv size l a r hst hok
    have he := exec1_ext l a r hn
    have hcov : Covers l.db.image (l.exec1 a r).db.image := by rw [h4]; exact Covers.refl _
    have hk1 := exec1_kcore defIds l a r hn hk hrf h4
    have hn1 := exec1_allNR l a r hn
    have htr : ∀ r', ReqFacts defIds l r' → ReqFacts defIds (l.exec1 a r) r' :=
      fun r' h => reqFacts_ext defIds l _ he hn hk.vv hcov r' h
    obtain ⟨i1, i2⟩ := ih (l.exec1 a r) h1 hn1 hk1
      (fun r' hr' => ⟨h2 r' (hq r' (by simp [hr'])).1, htr r' (hq r' (by simp [hr'])).2⟩)
    exact ⟨i1, fun r' h => i2 r' (htr r' h)⟩

#print axioms execList_kcore
end Drummer
