import DrummerVerif.Lemmas.KInv
import DrummerVerif.Lemmas.C11S
import DrummerVerif.Lemmas.LoopLaunch
import DrummerVerif.Lemmas.C02
/-! the requests Drummer schedules carry the facts the invariant needs -/
namespace Drummer

/-- a member of one of Drummer's views is anchored: known to the group from the view's version on -/
theorem anch_of_view_member (defIds : Nat → List Nat) (l : Loop) (hok : l.HistOK) (hmono : l.AllMono) (hvv : l.ViewVer)
    (c : Shard) (hc : c ∈ l.db.image.shards) (hmir : c.Mirrors l.H) (rep : Replica) (hrep : rep ∈ c.replicas) :
    l.Anch defIds c.shardId rep.replicaId := by
  obtain ⟨g, hg, mc, hmc, hver⟩ := hvv c hc
  obtain ⟨hgm, hgs⟩ := group?_mem l _ g hg
  right
  refine ⟨g, hg, c, hc, rfl, ?_⟩
  have hp : (rep.replicaId, rep.address) ∈ c.pairs := by
    unfold Shard.pairs; exact List.mem_map.mpr ⟨rep, hrep, rfl⟩
  have hH := H_of_mem l hok g hgm mc hmc
  have hin : (rep.replicaId, rep.address) ∈ mc.members := by
    have := (hmir.same _).mp hp
    rw [← hgs, ← hver, hH] at this; exact this
  have hk : mc.Known rep.replicaId := Or.inl (List.mem_map.mpr ⟨_, hin, rfl⟩)
  intro m hm hle
  exact (hmono g hgm).known mc hmc m hm (by rw [hver]; exact hle) _ hk

theorem reqFacts_other (defIds : Nat → List Nat) (l : Loop) (r : Request) (h1 : r.type ≠ .create) (h2 : r.type ≠ .kill) :
    ReqFacts defIds l r :=
  ⟨fun h => absurd h h1, fun h => absurd h h1, fun h => absurd h h2⟩

/-- C11 / C12 glue: every request of a maintenance round on a context decoded from the loop's DB carries `ReqFacts` -/
theorem maintain_reqFacts (defIds : Nat → List Nat) (l : Loop) (cx : Ctx) (draws rest : List Nat) (rs : List Request)
    (hfrom : CtxFrom l.db cx) (hkill : ∀ k ∈ cx.toKill, k ∈ l.db.image.toKill)
    (hok : l.HistOK) (hmir : ∀ c ∈ l.db.image.shards, c.Mirrors l.H) (hids : ∀ c ∈ l.db.image.shards, c.IdsOK)
    (hmono : l.AllMono) (hk : KCore defIds l)
    (h : maintain cx draws = .ok rs rest) : ∀ r ∈ rs, ReqFacts defIds l r := by
  have hfid : ∀ cr ∈ cx.repairs, ∀ x ∈ cr.failed, x.shardId = cr.shard.shardId := by
    intro cr hcr x hx
    obtain ⟨hmem, pf, _, _⟩ := hfrom.repairs cr hcr
    have hx' := pf.mem_iff.mp hx
    unfold Shard.failedReplicas at hx'
    exact hids cr.shard hmem x (List.mem_filter.mp hx').1
  unfold maintain at h
  cases hr : restore cx with
  | panic w => simp [hr] at h
  | ok rr =>
    simp only [hr] at h
    cases hp : repair cx (rr.map (·.shardId)) cx.repairs draws with
    | panic w => simp [hp] at h
    | error w => simp [hp] at h
    | ok rp dr =>
      simp only [hp] at h
      split at h
      · cases h
      · cases h
        intro r hm
        rcases List.mem_append.mp hm with hm | hm
        · rcases List.mem_append.mp hm with hm | hm
          · -- restore
            obtain ⟨cr, hcr, n, hn, host, d, _, _, _, _, hreq, _⟩ := (restore_just cx rr hr r hm).ex
            obtain ⟨hmem, pf, _, _⟩ := hfrom.repairs cr hcr
            have hn' : n ∈ cr.shard.replicas := by
              have := pf.mem_iff.mp hn
              unfold Shard.failedReplicas at this
              exact (List.mem_filter.mp this).1
            subst hreq
            refine ⟨fun _ _ => ?_, (fun _ _ hres => by simp [createReq] at hres), (fun ht => by simp [createReq] at ht)⟩
            exact anch_of_view_member defIds l hok hmono hk.vv cr.shard hmem (hmir _ hmem) n hn'
          · -- repair
            obtain ⟨_, cr, hcr, hj⟩ := (repair_spec cx _ cx.repairs draws rp _ hfid hp).1 r hm
            obtain ⟨hmem, _, _, pw⟩ := hfrom.repairs cr hcr
            rcases hj.just with ⟨ht, _⟩ | ⟨ht, hjoin, t, htm, hi, _⟩ | ⟨ht, _⟩
            · exact reqFacts_other defIds l r (by rw [ht]; simp) (by rw [ht]; simp)
            · have ht' : t ∈ cr.shard.replicas := by
                have := pw.mem_iff.mp htm
                unfold Shard.toStart at this
                exact (List.mem_filter.mp this).1
              refine ⟨fun _ _ => ?_, (fun _ hj' => by rw [hjoin] at hj'; cases hj'), (fun h' => by rw [ht] at h'; cases h')⟩
              rw [hj.shard, hi]
              exact anch_of_view_member defIds l hok hmono hk.vv cr.shard hmem (hmir _ hmem) t ht'
            · exact reqFacts_other defIds l r (by rw [ht]; simp) (by rw [ht]; simp)
        · -- kill
          rw [killReqs_eq] at hm
          obtain ⟨k, hk', rfl⟩ := List.mem_map.mp hm
          refine ⟨(fun ht => by simp [killReq] at ht), (fun ht => by simp [killReq] at ht), fun _ id hid => ?_⟩
          simp only [killReq, List.head?_cons, Option.some.injEq] at hid
          subst hid
          exact hk.kills k (hkill k hk')

/-- every request of an accepted launch plan names a defined initial member and carries the definition's ids -/
theorem launchF_reqFacts (defIds : Nat → List Nat) (l : Loop) (cx : Ctx) (draws rest : List Nat) (rs : List Request)
    (hdef : ∀ d ∈ cx.defs, d.members = defIds d.shardId)
    (h : launchF cx draws = .ok rs rest) : ∀ r ∈ rs, ReqFacts defIds l r := by
  unfold launchF at h
  cases hrg : cx.regions with
  | none => simp [hrg] at h
  | some rg =>
    simp only [hrg] at h
    split at h
    · cases h
    · intro r hr
      obtain ⟨d, hdm, dr, reqs, rest', hs, hmem⟩ := launchAllF_mem cx rg cx.defs draws rs rest h r hr
      obtain ⟨hlen, hinst, _, hall⟩ := launchShardF_valid cx rg d dr reqs rest' hs
      obtain ⟨ht, hj, hres, hsid, hids, hal, _⟩ := hall r hmem
      refine ⟨fun _ hjr => ?_, fun _ _ _ => ⟨?_, ?_⟩, (fun ht' => by rw [ht] at ht'; cases ht')⟩
      · rcases hjr with hjr | hjr
        · rw [hj] at hjr; cases hjr
        · rw [hres] at hjr; cases hjr
      · rw [hsid, ← hdef d hdm, ← hinst]
        exact List.mem_map_of_mem hmem
      · have hl : r.replicaIdList.length = r.addressList.length := by rw [hids, hal]; simp [hlen]
        rw [map_fst_zip_eq _ _ hl, hids, hsid, hdef d hdm]

#print axioms maintain_reqFacts
#print axioms launchF_reqFacts
end Drummer
