import DrummerVerif.Lemmas.KSched
import DrummerVerif.Lemmas.C02Events
/-! C11 `member_never_killed` over every reachable state of the closed loop -/
namespace Drummer

/-- the whole invariant -/
structure KInv (size : Nat → Nat) (defIds : Nat → List Nat) (l : Loop) : Prop where
  sys : SysInv size l
  nr : l.AllNR
  mono : l.AllMono
  uniq : UniqueShards l.db.image
  core : KCore defIds l
  queues : ∀ x ∈ l.hosts, ∀ r ∈ x.queue, ReqFacts defIds l r
  reqs : MboxAll (ReqFacts defIds l) l.db.requests
  out : MboxAll (ReqFacts defIds l) l.db.outgoing

/-- the events of the closed loop, with the fleet's own events spelled out (a `Step` lets a host change arbitrarily;
    here a host only crashes, restarts, catches up, stops replicas that applied their own removal, or executes) -/
inductive KStep (size : Nat → Nat) (defIds : Nat → List Nat) : Loop → Loop → Prop
  | dbLocal (l : Loop) (db' : DB) : db'.image = l.db.image → db'.requests = l.db.requests →
      db'.outgoing = l.db.outgoing → KStep size defIds l { l with db := db' }
  | report (l l' : Loop) (a : Addr) (lost : Bool) (n : Nat) : l.report a lost = .ok (l', n) → KStep size defIds l l'
  | schedule (l : Loop) (cx : Ctx) (draws rest : List Nat) (rs : List Request) (db' : DB) (n : Nat) :
      CtxFrom l.db cx → DefsAgree size l.db → (∀ k ∈ cx.toKill, k ∈ l.db.image.toKill) →
      maintain cx draws = .ok rs rest → l.db.applyRequests rs = .ok (db', n) →
      KStep size defIds l { l with db := db' }
  | launch (l : Loop) (cx : Ctx) (draws rest : List Nat) (rs : List Request) (db' : DB) (n : Nat) :
      DefsOK size cx → (∀ d ∈ cx.defs, d.members = defIds d.shardId) → launchF cx draws = .ok rs rest →
      l.db.applyRequests rs = .ok (db', n) → KStep size defIds l { l with db := db' }
  | execute (l : Loop) (a : Addr) : KStep size defIds l (l.execute a)
  | crash (l : Loop) (a : Addr) : KStep size defIds l (l.crash a)
  | restart (l : Loop) (a : Addr) : KStep size defIds l (l.restart a)
  | progress (l : Loop) (a : Addr) (all : Bool) : KStep size defIds l (l.progress a all)
  | settle (l : Loop) (a : Addr) : KStep size defIds l (l.settle a)

/-- every `KStep` is a `Step` (or changes nothing) -/
theorem kstep_step (size : Nat → Nat) (defIds : Nat → List Nat) (l l' : Loop) (h : KStep size defIds l l') :
    Step size l l' ∨ l' = l := by
  cases h with
  | dbLocal db' h1 h2 h3 => exact Or.inl (Step.dbLocal l db' h1 h2 h3)
  | report _ a lost n h => exact Or.inl (Step.report l l' a lost n h)
  | schedule cx draws rest rs db' n h1 h2 _ h3 h4 => exact Or.inl (Step.schedule l cx draws rest rs db' n h1 h2 h3 h4)
  | launch cx draws rest rs db' n h1 _ h2 h3 => exact Or.inl (Step.launch l cx draws rest rs db' n h1 h2 h3)
  | execute a => exact Or.inl (Step.execute l a)
  | crash a => exact crash_step size l a
  | restart a => exact restart_step size l a
  | progress a all => exact progress_step size l a all
  | settle a => exact settle_step size l a

theorem kstep_sys (size : Nat → Nat) (defIds : Nat → List Nat) (l l' : Loop) (h : KStep size defIds l l')
    (hs : SysInv size l) (hn : l.AllNR) : SysInv size l' ∧ l'.AllNR := by
  rcases kstep_step size defIds l l' h with hst | rfl
  · exact ⟨step_inv size l l' hs hst, step_allNR size l l' hn hst⟩
  · exact ⟨hs, hn⟩

end Drummer

namespace Drummer

theorem hosted_setHost (l X : Loop) (h' : Host) (hX : X.hosts = l.hosts) (hk : h'.KeysFrom l none) :
    ∀ s r, (X.setHost h').Hosted s r → l.Hosted s r := by
  intro s r hh
  obtain ⟨x, hx, hkeys⟩ := hh
  have hfrom := keysFrom_hosts_setHost l X none h' hX hk x hx
  rcases hkeys with ⟨rep, hrep, hs, hi⟩ | ⟨e, he, hkey⟩
  · rcases hfrom.1 rep hrep with hh | ⟨q, hq, _⟩
    · rw [← hs, ← hi]; exact hh
    · cases hq
  · rcases hfrom.2 e he with hh | ⟨q, hq, _⟩
    · have : (e.1.1, e.1.2) = (s, r) := by rw [← hkey]
      rw [← (Prod.mk.inj this).1, ← (Prod.mk.inj this).2]; exact hh
    · cases hq

/-- the invariant is inherited by a state with the same groups, views and mailboxes whose hosts run, keep and have
    queued nothing new -/
theorem kinv_same (size : Nat → Nat) (defIds : Nat → List Nat) (l l' : Loop) (hinv : KInv size defIds l)
    (hsys : SysInv size l') (hnr : l'.AllNR)
    (hg : l'.groups = l.groups) (himg : l'.db.image = l.db.image) (hreq : l'.db.requests = l.db.requests)
    (hout : l'.db.outgoing = l.db.outgoing)
    (hq : ∀ x' ∈ l'.hosts, ∀ r ∈ x'.queue, ∃ x ∈ l.hosts, r ∈ x.queue)
    (hsub : ∀ s r, l'.Hosted s r → l.Hosted s r) : KInv size defIds l' := by
  have he := ext_of_groups_eq l l' hg
  have hcov : Covers l.db.image l'.db.image := by rw [himg]; exact Covers.refl _
  have htr : ∀ r, ReqFacts defIds l r → ReqFacts defIds l' r :=
    fun r h => reqFacts_ext defIds l l' he hinv.nr hinv.core.vv hcov r h
  refine ⟨hsys, hnr, ?_, ?_, kcore_of_hosted_sub defIds l l' hinv.nr hg himg hsub hinv.core, ?_, ?_, ?_⟩
  · unfold Loop.AllMono; rw [hg]; exact hinv.mono
  · rw [himg]; exact hinv.uniq
  · intro x' hx' r hr
    obtain ⟨x, hx, hrx⟩ := hq x' hx' r hr
    exact htr r (hinv.queues x hx r hrx)
  · rw [hreq]; exact fun p hp r hr => htr r (hinv.reqs p hp r hr)
  · rw [hout]; exact fun p hp r hr => htr r (hinv.out p hp r hr)

/-- a host event that keeps the host's keys and does not grow its queue -/
theorem kinv_hostEvent (size : Nat → Nat) (defIds : Nat → List Nat) (l : Loop) (h h' : Host) (hinv : KInv size defIds l)
    (hm : h ∈ l.hosts) (hsys : SysInv size (l.setHost h')) (hnr : (l.setHost h').AllNR)
    (hk : h'.KeysFrom l none) (hqs : ∀ r ∈ h'.queue, r ∈ h.queue) : KInv size defIds (l.setHost h') := by
  apply kinv_same size defIds l _ hinv hsys hnr rfl rfl rfl rfl
  · intro x' hx' r hr
    rcases mem_setHost l h' x' hx' with rfl | hx
    · exact ⟨h, hm, hqs r hr⟩
    · exact ⟨x', hx, hr⟩
  · exact hosted_setHost l l h' rfl hk

theorem keysFrom_sub (l : Loop) (h h' : Host) (hm : h ∈ l.hosts) (hr : ∀ rep ∈ h'.running, rep ∈ h.running)
    (hd : ∀ e ∈ h'.data, e ∈ h.data) : h'.KeysFrom l none := by
  have base := keysFrom_of_mem l none h hm
  exact ⟨fun rep hrep => base.1 rep (hr rep hrep), fun e he => base.2 e (hd e he)⟩

end Drummer

namespace Drummer

/-- what a host looks like while it catches up: replicas and data keys are those of the host before -/
def ProgInv (h hh : Host) : Prop :=
  (∀ rep ∈ hh.running, ∃ r0 ∈ h.running, r0.shard = rep.shard ∧ r0.id = rep.id) ∧
  (∀ e ∈ hh.data, e ∈ h.data ∨ ∃ r0 ∈ h.running, (r0.shard, r0.id) = e.1)

theorem progress_fold_inv (l : Loop) (all : Bool) (h : Host) : ∀ (rs : List SimReplica), (∀ r ∈ rs, r ∈ h.running) →
    ∀ hh, ProgInv h hh →
    ProgInv h (rs.foldl (fun (hh : Host) r =>
      match l.group? r.shard with
      | none => hh
      | some g =>
        if !l.quorumRunning r.shard then hh else
        let last : Int := (g.hist.length : Int) - 1
        if r.applied < last then
          let ap := if all then last else r.applied + 1
          (hh.setRun { r with applied := ap }).dataPut r.shard r.id ap
        else hh) hh) := by
  intro rs
  induction rs with
  | nil => intro _ hh hi; exact hi
  | cons r rest ih =>
    intro hrs hh hi
    simp only [List.foldl_cons]
    apply ih (fun x hx => hrs x (by simp [hx]))
    have hr : r ∈ h.running := hrs r (by simp)
    split
    · exact hi
    · split
      · exact hi
      · split
        · constructor
          · intro rep hrep
            rw [dataPut_running] at hrep
            rcases mem_setRun _ _ _ hrep with rfl | hrep
            · exact ⟨r, hr, rfl, rfl⟩
            · exact hi.1 rep hrep
          · intro e he
            rcases mem_dataPut _ _ _ _ _ he with he | he
            · right; exact ⟨r, hr, he.symm⟩
            · rw [setRun_data] at he; exact hi.2 e he
        · exact hi

theorem progInv_keysFrom (l : Loop) (h hh : Host) (hm : h ∈ l.hosts) (hi : ProgInv h hh) : hh.KeysFrom l none := by
  constructor
  · intro rep hrep
    obtain ⟨r0, hr0, hs, hid⟩ := hi.1 rep hrep
    left; exact ⟨h, hm, Or.inl ⟨r0, hr0, hs, hid⟩⟩
  · intro e he
    left
    rcases hi.2 e he with he | ⟨r0, hr0, hk⟩
    · exact ⟨h, hm, Or.inr ⟨e, he, rfl⟩⟩
    · refine ⟨h, hm, Or.inl ⟨r0, hr0, ?_, ?_⟩⟩
      · exact (Prod.mk.inj (hk.trans (Prod.ext rfl rfl : e.1 = (e.1.1, e.1.2)))).1
      · exact (Prod.mk.inj (hk.trans (Prod.ext rfl rfl : e.1 = (e.1.1, e.1.2)))).2

end Drummer

namespace Drummer

theorem kinv_report (size : Nat → Nat) (defIds : Nat → List Nat) (l l' : Loop) (a : Addr) (lost : Bool) (n : Nat)
    (hinv : KInv size defIds l) (h : l.report a lost = .ok (l', n)) : KInv size defIds l' := by
  obtain ⟨hsys', hnr'⟩ := kstep_sys size defIds l l' (KStep.report l l' a lost n h) hinv.sys hinv.nr
  have hok := hinv.sys.st.histOK
  unfold Loop.report at h
  cases hh : l.host? a with
  | none => simp [hh] at h
  | some h0 =>
    simp only [hh] at h
    cases ha : l.db.applyReport (l.buildReport { h0 with reportCount := h0.reportCount + 1 } (h0.reportCount + 1)) with
    | panic w => simp [ha] at h
    | ok p =>
      obtain ⟨db', k⟩ := p
      simp only [ha] at h
      cases h
      have hm0 := host?_mem l a h0 hh
      let h1 : Host := { h0 with reportCount := h0.reportCount + 1 }
      have himg := applyReport_image _ _ _ _ ha
      obtain ⟨hcov, huniq', _⟩ := update_covers l.db.image db'.image _ hinv.uniq himg
      -- the new state has the groups of the old one
      have hg : ∀ (hh2 : Host), ((({ l with db := db' } : Loop).setHost hh2)).groups = l.groups := fun _ => rfl
      have he : ∀ (hh2 : Host), Ext l (({ l with db := db' } : Loop).setHost hh2) := fun hh2 => ext_of_groups_eq l _ (hg hh2)
      have hcov' : ∀ (hh2 : Host), Covers l.db.image (({ l with db := db' } : Loop).setHost hh2).db.image := fun _ => hcov
      have htr : ∀ (hh2 : Host) r, ReqFacts defIds l r → ReqFacts defIds (({ l with db := db' } : Loop).setHost hh2) r :=
        fun hh2 r hr => reqFacts_ext defIds l _ (he hh2) hinv.nr hinv.core.vv (hcov' hh2) r hr
      obtain ⟨hrq, hout⟩ := applyReport_mbox (ReqFacts defIds l) l.db db' _ _ ha hinv.reqs hinv.out
      -- entries of the report
      have hcons : ∀ ci ∈ (l.buildReport h1 (h0.reportCount + 1)).shardInfo, ¬ (ci.pending || ci.incomplete) = true →
          ci.Consistent l.H ∧ VerIn l ci.shardId ci.cci :=
        fun ci hci hp => ⟨buildReport_consistent l hok h1 _ ci hci hp, buildReport_verIn l h1 _ ci hci hp⟩
      have hanch : ∀ ci ∈ (l.buildReport h1 (h0.reportCount + 1)).shardInfo, l.Anch defIds ci.shardId ci.replicaId := by
        intro ci hci
        obtain ⟨rep, hrep, hs, hi⟩ := buildReport_running l h1 _ ci hci
        rw [← hs, ← hi]
        exact hinv.core.hosted _ _ ⟨h0, hm0, Or.inl ⟨rep, hrep, rfl, rfl⟩⟩
      have himg0 : ImgOK l l.db.image :=
        ⟨fun c hc => (hinv.sys.st.mir c hc).1, hinv.core.vv, hinv.uniq, Covers.refl _⟩
      -- the core of the new state, for any new version of the reporting host with the same replicas and data
      have hcore : ∀ (hh2 : Host), (∀ rep ∈ hh2.running, rep ∈ h0.running) → (∀ e ∈ hh2.data, e ∈ h0.data) →
          KCore defIds (({ l with db := db' } : Loop).setHost hh2) := by
        intro hh2 hr2 hd2
        constructor
        · intro c hc
          apply verIn_ext l _ (he hh2)
          exact update_seen (VerIn l) l.db.image db'.image
            ({ l.buildReport h1 (h0.reportCount + 1) with lastTick := l.db.tick } : NodeHostInfo) hinv.core.vv
            (fun ci hci hcomp => (hcons ci hci hcomp).2) himg c hc
        · intro s g hgs; exact hinv.core.dk s g hgs
        · intro s r hhst
          have hsub := hosted_setHost l ({ l with db := db' } : Loop) hh2 rfl (keysFrom_sub l h0 hh2 hm0 hr2 hd2) s r hhst
          exact anch_ext defIds l _ (he hh2) hinv.nr hinv.core.vv (hcov' hh2) s r (hinv.core.hosted s r hsub)
        · intro k hk
          apply removed_ext l _ (he hh2)
          rcases update_kill_witness (ImgOK l) l.db.image db'.image
              ({ l.buildReport h1 (h0.reportCount + 1) with lastTick := l.db.tick } : NodeHostInfo)
              (fun m ci m1 kk hm hci hd => imgOK_step l _ m m1 ci kk hm (hcons ci hci) hd) himg0 himg k hk with
            ⟨_, hold⟩ | ⟨_, ci, hci, hs, hi, mi, mi', _, hmi', hfl⟩
          · exact hinv.core.kills k hold
          · rw [hs, hi]
            exact flagged_removed defIds l hok hinv.core.dk _ mi mi' ci hmi' hfl (hanch ci hci)
      have hmono' : ∀ (hh2 : Host), (({ l with db := db' } : Loop).setHost hh2).AllMono := fun _ => hinv.mono
      cases lost with
      | true =>
        simp only [if_true] at hsys' hnr' ⊢
        refine ⟨hsys', hnr', hmono' _, huniq', hcore _ (fun _ hr => hr) (fun _ hd => hd), ?_,
          fun p hp r hr => htr _ r (hrq p hp r hr), fun p hp r hr => htr _ r (hout p hp r hr)⟩
        intro x hx r hr
        apply htr
        rcases mem_setHost _ _ x hx with rfl | hm
        · exact hinv.queues h0 hm0 r hr
        · exact hinv.queues x hm r hr
      | false =>
        simp only [Bool.false_eq_true, if_false] at hsys' hnr' ⊢
        refine ⟨hsys', hnr', hmono' _, huniq', hcore _ (fun _ hr => hr) (fun _ hd => hd), ?_,
          fun p hp r hr => htr _ r (hrq p hp r hr), fun p hp r hr => htr _ r (hout p hp r hr)⟩
        intro x hx r hr
        apply htr
        rcases mem_setHost _ _ x hx with rfl | hm
        · simp only [List.mem_append] at hr
          rcases hr with hr | hr
          · exact hinv.queues h0 hm0 r hr
          · unfold DB.lookupRequests at hr
            cases hg2 : amGet db'.outgoing a with
            | none => simp [hg2] at hr
            | some rs => simp only [hg2, Option.getD_some] at hr; exact mboxAll_amGet _ _ _ rs hout hg2 r hr
        · exact hinv.queues x hm r hr

#print axioms kinv_report
end Drummer

namespace Drummer

/-- new requests accepted into the replicated state: the invariant survives when they carry their facts -/
theorem kinv_newRequests (size : Nat → Nat) (defIds : Nat → List Nat) (l : Loop) (rs : List Request) (db' : DB) (n : Nat)
    (hinv : KInv size defIds l) (hsys : SysInv size { l with db := db' }) (hnr : ({ l with db := db' } : Loop).AllNR)
    (hrs : ∀ r ∈ rs, ReqFacts defIds l r) (ha : l.db.applyRequests rs = .ok (db', n)) :
    KInv size defIds { l with db := db' } := by
  obtain ⟨himg, hout, hrq⟩ := applyRequests_frame (ReqFacts defIds l) l.db db' rs n ha hinv.reqs hrs
  have he : Ext l ({ l with db := db' } : Loop) := ext_of_groups_eq l _ rfl
  have hcov : Covers l.db.image ({ l with db := db' } : Loop).db.image := by
    show Covers l.db.image db'.image; rw [himg]; exact Covers.refl _
  have htr : ∀ r, ReqFacts defIds l r → ReqFacts defIds ({ l with db := db' } : Loop) r :=
    fun r h => reqFacts_ext defIds l _ he hinv.nr hinv.core.vv hcov r h
  refine ⟨hsys, hnr, hinv.mono, (by show UniqueShards db'.image; rw [himg]; exact hinv.uniq),
    kcore_of_hosted_sub defIds l _ hinv.nr rfl himg (fun s r h => h) hinv.core,
    fun x hx r hr => htr r (hinv.queues x hx r hr), fun p hp r hr => htr r (hrq p hp r hr), ?_⟩
  show MboxAll _ db'.outgoing
  rw [hout]; exact fun p hp r hr => htr r (hinv.out p hp r hr)

theorem kinv_execute (size : Nat → Nat) (defIds : Nat → List Nat) (l : Loop) (a : Addr)
    (hinv : KInv size defIds l) : KInv size defIds (l.execute a) := by
  obtain ⟨hsys', hnr'⟩ := kstep_sys size defIds l _ (KStep.execute l a) hinv.sys hinv.nr
  unfold Loop.execute at hsys' hnr' ⊢
  cases hh : l.host? a with
  | none => exact hinv
  | some h =>
    simp only [hh] at hsys' hnr' ⊢
    have hmem := host?_mem l a h hh
    -- the state with the queue taken off the host
    have hinv0 : KInv size defIds (l.setHost { h with queue := [] }) :=
      kinv_hostEvent size defIds l h _ hinv hmem
        ⟨stateInv_of_same size l _ rfl rfl hinv.sys.st.mir hinv.sys.st, hinv.sys.ids,
          (fun x hx r hr => by
            apply execOK_congr size l _ rfl rfl
            rcases mem_setHost _ _ x hx with rfl | hm
            · simp at hr
            · exact hinv.sys.queues x hm r hr),
          fun p hp r hr => execOK_congr size l _ rfl rfl r (hinv.sys.reqs p hp r hr),
          fun p hp r hr => execOK_congr size l _ rfl rfl r (hinv.sys.out p hp r hr)⟩
        hinv.nr (keysFrom_sub l h _ hmem (fun _ hr => hr) (fun _ hd => hd)) (fun r hr => by simp at hr)
    have hc0 : ∀ r, ExecOK size l r → ExecOK size (l.setHost { h with queue := [] }) r :=
      fun r => execOK_congr size l _ rfl rfl r
    have hf0 : ∀ r, ReqFacts defIds l r → ReqFacts defIds (l.setHost { h with queue := [] }) r :=
      fun r hr => reqFacts_ext defIds l (l.setHost { h with queue := [] }) (ext_of_groups_eq l _ rfl) hinv.nr hinv.core.vv
        (Covers.refl _) r hr
    have hq : ∀ r ∈ h.queue, ExecOK size (l.setHost { h with queue := [] }) r ∧
        ReqFacts defIds (l.setHost { h with queue := [] }) r :=
      fun r hr => ⟨hc0 r (hinv.sys.queues h hmem r hr), hf0 r (hinv.queues h hmem r hr)⟩
    obtain ⟨i1, i2, i3, i4⟩ := execList_inv size a h.queue _ hinv0.sys.st (fun r hr => (hq r hr).1)
    obtain ⟨k1, k2⟩ := execList_kcore size defIds a h.queue _ hinv0.sys.st hinv0.nr hinv0.core hq
    have hmono' : (h.queue.foldl (fun l r => l.exec1 a r) (l.setHost { h with queue := [] })).AllMono := by
      -- by the same induction as `execList_inv`, with the version bound of `StateInv`
      have : ∀ (q : List Request) (l0 : Loop), StateInv size l0 → l0.AllNR → l0.AllMono → (∀ r ∈ q, ExecOK size l0 r) →
          (q.foldl (fun l r => l.exec1 a r) l0).AllMono := by
        intro q
        induction q with
        | nil => intro l0 _ _ hm _; exact hm
        | cons r rest ih =>
          intro l0 hst hn hm hqq
          simp only [List.foldl_cons]
          obtain ⟨h1, h2, _, _⟩ := exec1_inv size l0 a r hst (hqq r (by simp))
          exact ih _ h1 (exec1_allNR l0 a r hn) (exec1_allMono l0 a r hn hm hst.vers)
            (fun r' hr' => h2 r' (hqq r' (by simp [hr'])))
      exact this h.queue _ hinv0.sys.st hinv0.nr hinv0.mono (fun r hr => (hq r hr).1)
    refine ⟨hsys', hnr', hmono', (by rw [i4]; exact hinv0.uniq), k1, ?_, ?_, ?_⟩
    · intro x hx r hr
      obtain ⟨y, hy, e⟩ := i3 x hx
      rw [e] at hr
      apply k2
      exact hinv0.queues y hy r hr
    · rw [i4]; exact fun p hp r hr => k2 r (hinv0.reqs p hp r hr)
    · rw [i4]; exact fun p hp r hr => k2 r (hinv0.out p hp r hr)

#print axioms kinv_execute
end Drummer

namespace Drummer

theorem kstep_inv (size : Nat → Nat) (defIds : Nat → List Nat) (l l' : Loop) (hinv : KInv size defIds l)
    (hs : KStep size defIds l l') : KInv size defIds l' := by
  obtain ⟨hsys', hnr'⟩ := kstep_sys size defIds l l' hs hinv.sys hinv.nr
  cases hs with
  | dbLocal db' h1 h2 h3 =>
    exact kinv_same size defIds l _ hinv hsys' hnr' rfl h1 h2 h3 (fun x hx r hr => ⟨x, hx, hr⟩) (fun s r h => h)
  | report _ a lost n h => exact kinv_report size defIds l l' a lost n hinv h
  | schedule cx draws rest rs db' n hfrom hdefs hkill hm ha =>
    have hrs := maintain_reqFacts defIds l cx draws rest rs hfrom hkill hinv.sys.st.histOK
      (fun c hc => (hinv.sys.st.mir c hc).1) hinv.sys.ids hinv.mono hinv.core hm
    exact kinv_newRequests size defIds l rs db' n hinv hsys' hnr' hrs ha
  | launch cx draws rest rs db' n _ hdef hm ha =>
    have hrs := launchF_reqFacts defIds l cx draws rest rs hdef hm
    exact kinv_newRequests size defIds l rs db' n hinv hsys' hnr' hrs ha
  | execute a => exact kinv_execute size defIds l a hinv
  | crash a =>
    unfold Loop.crash at hsys' hnr' ⊢
    cases hh : l.host? a with
    | none => exact hinv
    | some h =>
      simp only [hh] at hsys' hnr' ⊢
      have hm := host?_mem l a h hh
      exact kinv_hostEvent size defIds l h _ hinv hm hsys' hnr'
        (keysFrom_sub l h _ hm (fun _ hr => by simp at hr) (fun _ hd => hd)) (fun r hr => by simp at hr)
  | restart a =>
    unfold Loop.restart at hsys' hnr' ⊢
    cases hh : l.host? a with
    | none => exact hinv
    | some h =>
      simp only [hh] at hsys' hnr' ⊢
      have hm := host?_mem l a h hh
      exact kinv_hostEvent size defIds l h _ hinv hm hsys' hnr'
        (keysFrom_sub l h _ hm (fun _ hr => hr) (fun _ hd => hd)) (fun r hr => hr)
  | progress a all =>
    unfold Loop.progress at hsys' hnr' ⊢
    cases hh : l.host? a with
    | none => exact hinv
    | some h =>
      simp only [hh] at hsys' hnr' ⊢
      have hm := host?_mem l a h hh
      have hpi := progress_fold_inv l all h h.running (fun _ hr => hr) h
        ⟨fun rep hrep => ⟨rep, hrep, rfl, rfl⟩, fun e he => Or.inl he⟩
      refine kinv_hostEvent size defIds l h _ hinv hm hsys' hnr' (progInv_keysFrom l h _ hm hpi) ?_
      intro r hr
      rw [foldl_queue] at hr
      · exact hr
      · intro hh0 r0
        split
        · rfl
        · split
          · rfl
          · split <;> rfl
  | settle a =>
    unfold Loop.settle at hsys' hnr' ⊢
    cases hh : l.host? a with
    | none => exact hinv
    | some h =>
      simp only [hh] at hsys' hnr' ⊢
      have hm := host?_mem l a h hh
      exact kinv_hostEvent size defIds l h _ hinv hm hsys' hnr'
        (keysFrom_sub l h _ hm (fun _ hr => (List.mem_filter.mp hr).1) (fun _ hd => hd)) (fun r hr => hr)

/-- reflexive-transitive closure of `KStep` -/
inductive KSteps (size : Nat → Nat) (defIds : Nat → List Nat) : Loop → Loop → Prop
  | refl (l : Loop) : KSteps size defIds l l
  | tail (l l' l'' : Loop) : KSteps size defIds l l' → KStep size defIds l' l'' → KSteps size defIds l l''

theorem ksteps_inv (size : Nat → Nat) (defIds : Nat → List Nat) (l l' : Loop) (hinv : KInv size defIds l)
    (hs : KSteps size defIds l l') : KInv size defIds l' := by
  induction hs with
  | refl => exact hinv
  | tail l' l'' _ hstep ih => exact kstep_inv size defIds l' l'' ih hstep

/-- the invariant holds of a cold start: no groups, no views, nothing queued, scheduled or recorded, hosts empty -/
theorem kinv_cold (size : Nat → Nat) (defIds : Nat → List Nat) (l : Loop) (hg : l.groups = [])
    (hh : ∀ x ∈ l.hosts, x.queue = [] ∧ x.running = [] ∧ x.data = [])
    (himg : l.db.image.shards = []) (hkill : l.db.image.toKill = []) (hreq : l.db.requests = []) (hout : l.db.outgoing = []) :
    KInv size defIds l := by
  have hsys : SysInv size l := sysInv_cold size l hg (fun x hx => (hh x hx).1) hreq hout himg
  refine ⟨hsys, ?_, ?_, ?_, ⟨?_, ?_, ?_, ?_⟩, ?_, ?_, ?_⟩
  · intro g hgm; rw [hg] at hgm; cases hgm
  · intro g hgm; rw [hg] at hgm; cases hgm
  · intro c hc; rw [himg] at hc; cases hc
  · intro c hc; rw [himg] at hc; cases hc
  · intro s g hgs
    have := (group?_mem l s g hgs).1
    rw [hg] at this; cases this
  · intro s r hhst
    obtain ⟨x, hx, hkeys⟩ := hhst
    obtain ⟨_, hr, hd⟩ := hh x hx
    rcases hkeys with ⟨rep, hrep, _⟩ | ⟨e, he, _⟩
    · rw [hr] at hrep; cases hrep
    · rw [hd] at he; cases he
  · intro k hk; rw [hkill] at hk; cases hk
  · intro x hx r hr; rw [(hh x hx).1] at hr; cases hr
  · intro p hp; rw [hreq] at hp; cases hp
  · intro p hp; rw [hout] at hp; cases hp

/-- **C11 `member_never_killed`, closed loop.** In every state the closed loop reaches from a cold start — through any
    number of reports (with lost replies), scheduling rounds with any draws and map orders, launches, executions,
    crashes, restarts, catch-ups and self-stops — every replica recorded for killing, and every replica named by a kill
    request that is scheduled, picked up, or queued at a NodeHost, is not a member of the current membership of its
    Raft group (it has been removed, and a removed replica never returns) -/
theorem member_never_killed (size : Nat → Nat) (defIds : Nat → List Nat) (l l' : Loop) (hinv : KInv size defIds l)
    (hs : KSteps size defIds l l') :
    (∀ k ∈ l'.db.image.toKill, ∀ g, l'.group? k.shardId = some g → k.replicaId ∉ g.cur.members.map (·.1)) ∧
    (∀ x ∈ l'.hosts, ∀ r ∈ x.queue, r.type = .kill → ∀ id, r.members.head? = some id →
      ∀ g, l'.group? r.shardId = some g → id ∉ g.cur.members.map (·.1)) ∧
    (∀ p ∈ l'.db.requests ++ l'.db.outgoing, ∀ r ∈ p.2, r.type = .kill → ∀ id, r.members.head? = some id →
      ∀ g, l'.group? r.shardId = some g → id ∉ g.cur.members.map (·.1)) := by
  have hi := ksteps_inv size defIds l l' hinv hs
  refine ⟨fun k hk g hg => removed_not_member l' hi.nr _ _ (hi.core.kills k hk) g hg, ?_, ?_⟩
  · intro x hx r hr ht id hid g hg
    exact removed_not_member l' hi.nr _ _ ((hi.queues x hx r hr).kill ht id hid) g hg
  · intro p hp r hr ht id hid g hg
    rcases List.mem_append.mp hp with hp | hp
    · exact removed_not_member l' hi.nr _ _ ((hi.reqs p hp r hr).kill ht id hid) g hg
    · exact removed_not_member l' hi.nr _ _ ((hi.out p hp r hr).kill ht id hid) g hg

#print axioms kstep_inv
#print axioms member_never_killed
end Drummer
