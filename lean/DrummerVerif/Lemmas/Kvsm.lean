import DrummerVerif.Lemmas.C20R
import DrummerVerif.Model.Kvsm
/-! C15 lemmas over M-KVSM -/
namespace Kvsm
open Codec

theorem get_put (s : Store) (k v k' : Bytes) : get (put s k v) k' = if k = k' then some v else get s k' :=
  AMap.get_put s k k' v

/-- repaired machine: whatever the pool returns, a well-formed command stores exactly its pair -/
theorem update_stores (s : SM) (pooled : Bool) (kv : KV) (hlen : (marshal kv).length < sizeMax) :
    ∃ s', update s pooled (marshal kv) = .ok s' (marshal kv).length ∧ s'.store = put s.store kv.key kv.val := by
  unfold update
  simp only [roundtrip_fresh kv hlen]
  exact ⟨_, rfl, rfl⟩

theorem update_lookup (s s' : SM) (pooled : Bool) (kv : KV) (hlen : (marshal kv).length < sizeMax) (n : Nat)
    (h : update s pooled (marshal kv) = .ok s' n) (k : Bytes) :
    get s'.store k = if kv.key = k then some kv.val else get s.store k := by
  obtain ⟨s1, h1, hs⟩ := update_stores s pooled kv hlen
  rw [h1] at h; cases h
  rw [hs, get_put]

/-- F-C15a as a theorem about the pinned code's model: with a pooled object holding `(k1, v1)`, the command that
    writes the empty value under `k2` stores `v1` under `k2` -/
theorem pooled_leak (s : SM) (k1 v1 k2 : Bytes) (hp : s.pool = some ⟨k1, v1⟩) (hk2 : k2 ≠ [])
    (hlen : (marshal ⟨k2, []⟩).length < sizeMax) :
    ∃ s', updateUnfixed s true (marshal ⟨k2, []⟩) = .ok s' (marshal ⟨k2, []⟩).length ∧ get s'.store k2 = some v1 := by
  unfold updateUnfixed
  simp only [hp, if_true, Option.getD_some, unmarshal_marshal ⟨k1, v1⟩ ⟨k2, []⟩ hlen, hk2, if_false]
  exact ⟨_, rfl, by rw [get_put]; simp⟩

/-- the specification: the value of `k` after a list of written pairs is the last one written for `k` -/
def lastWrite (k : Bytes) : List KV → Option Bytes
  | [] => none
  | kv :: rest => match lastWrite k rest with
    | some v => some v
    | none => if kv.key = k then some kv.val else none

/-- run a list of well-formed commands; the pool's behaviour is an arbitrary Boolean per command -/
def runCmds : SM → List (KV × Bool) → Option SM
  | s, [] => some s
  | s, (kv, pooled) :: rest => match update s pooled (marshal kv) with
    | .ok s' _ => runCmds s' rest
    | .panic => none

/-- C15 `lookup_is_last_write` for the (repaired) in-memory machine: after any sequence of well-formed updates, with
    the pool behaving in any way, every lookup returns the last value written for the key -/
theorem lookup_is_last_write : ∀ (cmds : List (KV × Bool)) (s : SM), (∀ c ∈ cmds, (marshal c.1).length < sizeMax) →
    ∃ s', runCmds s cmds = some s' ∧ ∀ k, get s'.store k = (lastWrite k (cmds.map (·.1))).orElse (fun _ => get s.store k) := by
  intro cmds
  induction cmds with
  | nil => intro s _; exact ⟨s, rfl, fun k => by simp [lastWrite]⟩
  | cons c rest ih =>
    intro s h
    obtain ⟨kv, pooled⟩ := c
    obtain ⟨s1, h1, hs⟩ := update_stores s pooled kv (h (kv, pooled) (by simp))
    obtain ⟨s', hr, hl⟩ := ih s1 (fun x hx => h x (by simp [hx]))
    refine ⟨s', by simp [runCmds, h1, hr], fun k => ?_⟩
    rw [hl k, hs, get_put]
    simp only [List.map_cons, lastWrite]
    cases hlw : lastWrite k (rest.map (·.1)) with
    | some v => simp
    | none =>
      by_cases hk : kv.key = k
      · simp [hk]
      · simp [hk]


/-! ### all three machines: batches, observers, snapshots -/

theorem update_frame (s s' : SM) (pooled : Bool) (cmd : Bytes) (n : Nat) (h : update s pooled cmd = .ok s' n) :
    s'.kind = s.kind ∧ s'.applied = s.applied := by
  unfold update at h
  cases hu : unmarshalBinary {} cmd with
  | ok m o => simp only [hu] at h; cases h; exact ⟨rfl, rfl⟩
  | err e o => simp [hu] at h
  | oob => simp [hu] at h

/-- a batch of well-formed entries is applied entry by entry: afterwards every key holds the last value written -/
theorem applyEntries_lookup : ∀ (ents : List (Nat × KV × Bool)) (s : SM),
    (∀ e ∈ ents, (marshal e.2.1).length < sizeMax) →
    ∃ s', applyEntries s (ents.map fun e => (e.1, marshal e.2.1, e.2.2)) = some s' ∧ s'.kind = s.kind ∧ s'.applied = s.applied ∧
      ∀ k, get s'.store k = (lastWrite k (ents.map (·.2.1))).orElse (fun _ => get s.store k) := by
  intro ents
  induction ents with
  | nil => intro s _; exact ⟨s, rfl, rfl, rfl, fun k => by simp [lastWrite]⟩
  | cons e rest ih =>
    intro s h
    obtain ⟨idx, kv, pooled⟩ := e
    obtain ⟨s1, h1, hs⟩ := update_stores s pooled kv (h (idx, kv, pooled) (by simp))
    obtain ⟨hk1, ha1⟩ := update_frame s s1 pooled _ _ h1
    obtain ⟨s', hr, hk, ha, hl⟩ := ih s1 (fun x hx => h x (by simp [hx]))
    refine ⟨s', by simp [applyEntries, h1, hr], by rw [hk, hk1], by rw [ha, ha1], fun k => ?_⟩
    rw [hl k, hs, get_put]
    simp only [List.map_cons, lastWrite]
    cases hlw : lastWrite k (rest.map (·.2.1)) with
    | some v => simp
    | none =>
      by_cases hkk : kv.key = k
      · simp [hkk]
      · simp [hkk]

/-- C15 `lookup_is_last_write`, every machine kind: one `Update` call with well-formed entries succeeds (for the
    on-disk machine: provided the batch is non-empty and its last index moves the applied index forward) and every
    lookup returns the last value written for the key -/
theorem updateBatch_lookup (ents : List (Nat × KV × Bool)) (s : SM)
    (hwf : ∀ e ∈ ents, (marshal e.2.1).length < sizeMax)
    (hidx : s.kind = .disk → ∃ last, (ents.map (·.1)).getLast? = some last ∧ s.applied < last) :
    ∃ s', updateBatch s (ents.map fun e => (e.1, marshal e.2.1, e.2.2)) = some s' ∧ s'.kind = s.kind ∧
      ∀ k, lookup s' k = ((lastWrite k (ents.map (·.2.1))).orElse (fun _ => get s.store k)).getD [] := by
  obtain ⟨s1, h1, hk, ha, hl⟩ := applyEntries_lookup ents s hwf
  unfold updateBatch
  cases hkind : s.kind with
  | mem => exact ⟨s1, h1, by rw [hk, hkind], fun k => by unfold lookup; rw [hl k]⟩
  | conc => exact ⟨s1, h1, by rw [hk, hkind], fun k => by unfold lookup; rw [hl k]⟩
  | disk =>
    obtain ⟨last, hlast, hlt⟩ := hidx hkind
    have hgl : (ents.map fun e => ((e.1, marshal e.2.1, e.2.2) : Entry)).getLast? =
        (ents.getLast?).map fun e => (e.1, marshal e.2.1, e.2.2) := by
      rw [List.getLast?_map]
    have hgl2 : (ents.map (·.1)).getLast? = (ents.getLast?).map (·.1) := by rw [List.getLast?_map]
    cases hel : ents.getLast? with
    | none => rw [hgl2, hel] at hlast; cases hlast
    | some e =>
      rw [hgl2, hel] at hlast
      simp only [Option.map_some, Option.some.injEq] at hlast
      simp only [hgl, hel, Option.map_some, h1]
      have : ¬ s.applied ≥ e.1 := by rw [hlast]; omega
      simp only [this, if_false]
      exact ⟨_, rfl, by simp [hk, hkind], fun k => by unfold lookup; simp only; rw [hl k]⟩

/-- lookups, sync, snapshot preparation and saving, hashing and restarts leave the state untouched -/
theorem observers_identity (s : SM) (o : Op) (h : ∀ ents, o ≠ .update ents) (h2 : ∀ sn, o ≠ .recover sn) : step s o = some s := by
  cases o with
  | update ents => exact absurd rfl (h ents)
  | recover sn => exact absurd rfl (h2 sn)
  | _ => rfl

def Op.mutates : Op → Bool
  | .update _ => true
  | .recover _ => true
  | _ => false

/-- C15 `hash_input_function_of_updates`: the state after any interleaving of updates with lookups, sync calls,
    snapshot activity, hashing and restarts is the state after the updates (and recoveries) alone — so everything
    computed from the state (every lookup, the hashed value `contents` / `count`) is a function of those only -/
theorem run_ignores_observers : ∀ (ops : List Op) (s : SM), run s ops = run s (ops.filter Op.mutates) := by
  intro ops
  induction ops with
  | nil => intro s; rfl
  | cons o rest ih =>
    intro s
    cases o with
    | update ents =>
      simp only [List.filter, Op.mutates, run]
      cases step s (.update ents) with
      | none => rfl
      | some s' => exact ih s'
    | recover sn =>
      simp only [List.filter, Op.mutates, run]
      cases step s (.recover sn) with
      | none => rfl
      | some s' => exact ih s'
    | lookup k => simpa [List.filter, Op.mutates, run, step] using ih s
    | sync => simpa [List.filter, Op.mutates, run, step] using ih s
    | prepare => simpa [List.filter, Op.mutates, run, step] using ih s
    | save => simpa [List.filter, Op.mutates, run, step] using ih s
    | hash => simpa [List.filter, Op.mutates, run, step] using ih s
    | reopen => simpa [List.filter, Op.mutates, run, step] using ih s

/-- C15 `snapshot_restores_exactly` for the in-memory and the concurrent machine: a fresh or any other replica that
    installs the snapshot holds exactly the snapshotted pairs and count -/
theorem recover_snapshot_mem (s f : SM) (hk : s.kind ≠ .disk) (hf : f.kind = s.kind) :
    ∃ f', recover f (snapshot s) = some f' ∧ f'.store = s.store ∧ f'.count = s.count ∧ f'.kind = s.kind := by
  unfold recover snapshot contents
  cases hkind : s.kind with
  | disk => exact absurd hkind hk
  | mem => rw [hf, hkind]; exact ⟨_, rfl, rfl, rfl, by simp [hf, hkind]⟩
  | conc => rw [hf, hkind]; exact ⟨_, rfl, rfl, rfl, by simp [hf, hkind]⟩

/-- C15 `snapshot_restores_exactly` for the on-disk machine: a replica whose applied index is not ahead installs the
    snapshot and then holds the same pairs and the same applied index -/
theorem recover_snapshot_disk (s f : SM) (hk : s.kind = .disk) (hf : f.kind = .disk) (hle : f.applied ≤ s.applied) :
    ∃ f', recover f (snapshot s) = some f' ∧ f'.applied = s.applied ∧ f'.kind = .disk ∧ f'.store = s.store := by
  unfold recover snapshot contents
  have : ¬ f.applied > s.applied := by omega
  simp only [hf, this, if_false]
  exact ⟨_, rfl, rfl, by simp [hf], rfl⟩

/-- the on-disk machine never installs a snapshot that is behind its own applied index -/
theorem recover_disk_refuses_older (f : SM) (sn : Snap) (hf : f.kind = .disk) (h : sn.applied < f.applied) :
    recover f sn = none := by
  unfold recover
  simp [hf, h]

end Kvsm
