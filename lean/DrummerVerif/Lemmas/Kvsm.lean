import DrummerVerif.Lemmas.C20R
import DrummerVerif.Model.AMap
/-! M-KVSM prototype: the in-memory test state machine (tests/kvtest.go) over M-CODEC, with its pooled decoder object,
    refined to a last-writer-wins map -/
namespace Kvsm
open Codec

abbrev Store := List (Bytes × Bytes)

def get (s : Store) (k : Bytes) : Option Bytes := AMap.get s k
def put (s : Store) (k v : Bytes) : Store := AMap.put s k v

theorem get_put (s : Store) (k v k' : Bytes) : get (put s k v) k' = if k = k' then some v else get s k' :=
  AMap.get_put s k k' v

structure SM where
  store : Store := []
  pool : Option KV := none        -- the object `sync.Pool` may hand back
  count : Nat := 0

inductive Out | ok (sm : SM) (result : Nat) | panic

/-- `Update` as it is at the pinned commit: the decoder object comes from the pool *as it was left* (`pooled = true`)
    or fresh; `Unmarshal` leaves absent fields untouched -/
def updateUnfixed (s : SM) (pooled : Bool) (cmd : Bytes) : Out :=
  let o0 : KV := if pooled then s.pool.getD {} else {}
  match unmarshalBinary o0 cmd with
  | .ok _ o => .ok { store := put s.store o.key o.val, pool := some o, count := s.count + 1 } cmd.length
  | _ => .panic

/-- repaired `Update`: the object is reset before decoding -/
def update (s : SM) (pooled : Bool) (cmd : Bytes) : Out :=
  let _o0 : KV := if pooled then s.pool.getD {} else {}
  match unmarshalBinary {} cmd with
  | .ok _ o => .ok { store := put s.store o.key o.val, pool := some o, count := s.count + 1 } cmd.length
  | _ => .panic

/-- repaired machine: whatever the pool returns, a well-formed command stores exactly its pair -/
theorem update_stores (s : SM) (pooled : Bool) (kv : KV) (hlen : (marshal kv).length < sizeMax) :
    ∃ s', update s pooled (marshal kv) = .ok s' (marshal kv).length ∧ s'.store = put s.store kv.key kv.val := by
  unfold update
  simp only [roundtrip_fresh kv hlen]
  exact ⟨_, rfl, rfl⟩

theorem update_lookup (s s' : SM) (pooled : Bool) (kv : KV) (hlen : (marshal kv).length < sizeMax) (n : Nat)
    (h : update s pooled (marshal kv) = .ok s' n) (k : Bytes) :
    get s'.store k = if kv.key = k then some kv.val else get s.store k := by
  obtain ⟨s1, h1, hs⟩ := update_stores s pooled kv hlen
  rw [h1] at h; cases h
  rw [hs, get_put]

/-- F-C15a as a theorem about the pinned code's model: with a pooled object holding `(k1, v1)`, the command that
    writes the empty value under `k2` stores `v1` under `k2` -/
theorem pooled_leak (s : SM) (k1 v1 k2 : Bytes) (hp : s.pool = some ⟨k1, v1⟩) (hk2 : k2 ≠ [])
    (hlen : (marshal ⟨k2, []⟩).length < sizeMax) :
    ∃ s', updateUnfixed s true (marshal ⟨k2, []⟩) = .ok s' (marshal ⟨k2, []⟩).length ∧ get s'.store k2 = some v1 := by
  unfold updateUnfixed
  simp only [hp, if_true, Option.getD_some, unmarshal_marshal ⟨k1, v1⟩ ⟨k2, []⟩ hlen, hk2, if_false]
  exact ⟨_, rfl, by rw [get_put]; simp⟩

/-- the specification: the value of `k` after a list of written pairs is the last one written for `k` -/
def lastWrite (k : Bytes) : List KV → Option Bytes
  | [] => none
  | kv :: rest => match lastWrite k rest with
    | some v => some v
    | none => if kv.key = k then some kv.val else none

/-- run a list of well-formed commands; the pool's behaviour is an arbitrary Boolean per command -/
def run : SM → List (KV × Bool) → Option SM
  | s, [] => some s
  | s, (kv, pooled) :: rest => match update s pooled (marshal kv) with
    | .ok s' _ => run s' rest
    | .panic => none

/-- C15 `lookup_is_last_write` for the (repaired) in-memory machine: after any sequence of well-formed updates, with
    the pool behaving in any way, every lookup returns the last value written for the key -/
theorem lookup_is_last_write : ∀ (cmds : List (KV × Bool)) (s : SM), (∀ c ∈ cmds, (marshal c.1).length < sizeMax) →
    ∃ s', run s cmds = some s' ∧ ∀ k, get s'.store k = (lastWrite k (cmds.map (·.1))).orElse (fun _ => get s.store k) := by
  intro cmds
  induction cmds with
  | nil => intro s _; exact ⟨s, rfl, fun k => by simp [lastWrite]⟩
  | cons c rest ih =>
    intro s h
    obtain ⟨kv, pooled⟩ := c
    obtain ⟨s1, h1, hs⟩ := update_stores s pooled kv (h (kv, pooled) (by simp))
    obtain ⟨s', hr, hl⟩ := ih s1 (fun x hx => h x (by simp [hx]))
    refine ⟨s', by simp [run, h1, hr], fun k => ?_⟩
    rw [hl k, hs, get_put]
    simp only [List.map_cons, lastWrite]
    cases hlw : lastWrite k (rest.map (·.1)) with
    | some v => simp
    | none =>
      by_cases hk : kv.key = k
      · simp [hk]
      · simp [hk]

#print axioms lookup_is_last_write
#print axioms pooled_leak
end Kvsm
