import DrummerVerif.Model.Launch
import DrummerVerif.Lemmas.C12
/-! C08: validity theorems of the launch planner -/
namespace Drummer

/-! ### never a crash -/

theorem launchShardF_no_crash (cx : Ctx) (rg : Regions) (d : ShardDef) (draws : List Nat) (w : String)
    (h : launchShardF cx rg d draws = .panic w) : w = "exhausted" := by
  unfold launchShardF at h
  split at h
  · cases h
  · split at h
    · cases h
    · split at h
      · cases h; rfl
      · split at h
        · cases h
        · split at h <;> cases h

theorem launchAllF_no_crash (cx : Ctx) (rg : Regions) : ∀ (ds : List ShardDef) (draws : List Nat) (w : String),
    launchAllF cx rg ds draws = .panic w → w = "exhausted" := by
  intro ds
  induction ds with
  | nil => intro draws w h; simp [launchAllF] at h
  | cons d ds ih =>
    intro draws w h
    unfold launchAllF at h
    cases h1 : launchShardF cx rg d draws with
    | panic w1 => simp only [h1] at h; cases h; exact launchShardF_no_crash cx rg d draws _ h1
    | error w1 => simp [h1] at h
    | ok reqs rest =>
      simp only [h1] at h
      cases h2 : launchAllF cx rg ds rest with
      | panic w2 => simp only [h2] at h; cases h; exact ih rest _ h2
      | error w2 => simp [h2] at h
      | ok rs dr => simp [h2] at h

/-- C08 `launch_total`: the repaired planner never crashes, whatever the region specification is
    (the only non-result is running out of *scripted* draws, which a real random source never does) -/
theorem launchF_no_crash (cx : Ctx) (draws : List Nat) (w : String) (h : launchF cx draws = .panic w) :
    w = "exhausted" := by
  unfold launchF at h
  cases hr : cx.regions with
  | none => simp [hr] at h
  | some rg =>
    simp only [hr] at h
    split at h
    · cases h
    · exact launchAllF_no_crash cx rg _ _ _ h

/-! ### a produced plan is valid -/

theorem selectRegions_mem (cx : Ctx) (sid : Nat) : ∀ (rc : List (String × Nat)) (draws : List Nat) (sel : List HostSpec) (rest : List Nat),
    selectRegions cx sid rc draws = some (sel, rest) →
    ∀ h ∈ sel, h ∈ cx.hosts ∧ liveFilter cx.tick nodeHostTTL h = true ∧ basicFilter sid h = true ∧
      ∃ p ∈ rc, h.region = p.1 := by
  intro rc
  induction rc with
  | nil => intro draws sel rest hs; simp [selectRegions] at hs; obtain ⟨rfl, _⟩ := hs; intro h hh; simp at hh
  | cons p rc ih =>
    obtain ⟨reg, cnt⟩ := p
    intro draws sel rest hs
    unfold selectRegions at hs
    cases h1 : findSuitable cx.hosts (regionFilter cx sid reg) cnt draws with
    | none => simp [h1] at hs
    | some q =>
      obtain ⟨hs1, d1⟩ := q
      simp only [h1] at hs
      cases h2 : selectRegions cx sid rc d1 with
      | none => simp [h2] at hs
      | some q2 =>
        obtain ⟨hs2, d2⟩ := q2
        simp only [h2, Option.some.injEq, Prod.mk.injEq] at hs
        obtain ⟨rfl, _⟩ := hs
        intro h hh
        rcases List.mem_append.mp hh with hh | hh
        · have := findSuitable_mem _ _ _ _ _ _ h1 h hh
          unfold regionFilter at this
          simp only [Bool.and_eq_true, decide_eq_true_eq] at this
          exact ⟨this.1, this.2.1.1, this.2.1.2, (reg, cnt), by simp, this.2.2⟩
        · obtain ⟨a, b, c, q, hq, hr⟩ := ih d1 hs2 d2 h2 h hh
          exact ⟨a, b, c, q, by simp [hq], hr⟩

theorem pickDistinct_length (n count : Nat) : ∀ (draws sel idx rest : List Nat), sel.length ≤ count →
    pickDistinct n count sel draws = some (idx, rest) → idx.length = count := by
  intro draws
  induction draws with
  | nil =>
    intro sel idx rest hle h
    unfold pickDistinct at h
    by_cases hc : sel.length = count
    · simp [hc] at h; obtain ⟨rfl, _⟩ := h; simpa using hc
    · simp [hc] at h
  | cons d ds ih =>
    intro sel idx rest hle h
    unfold pickDistinct at h
    by_cases hc : sel.length = count
    · simp [hc] at h; obtain ⟨rfl, _⟩ := h; simpa using hc
    · simp only [hc, if_false] at h
      by_cases hcon : sel.contains (d % n) = true
      · simp only [hcon, if_true] at h; exact ih sel idx rest hle h
      · simp only [hcon] at h
        exact ih _ idx rest (by simp; omega) h

theorem findSuitable_length (hosts : List HostSpec) (p : HostSpec → Bool) (count : Nat) (draws : List Nat)
    (hs : List HostSpec) (rest : List Nat) (h : findSuitable hosts p count draws = some (hs, rest)) :
    hs.length ≤ count := by
  unfold findSuitable at h
  simp only at h
  split at h
  · cases h; simp
  · rename_i hlt
    cases hp : pickDistinct (hosts.filter p).length count [] draws with
    | none => simp [hp] at h
    | some q =>
      obtain ⟨idx, rest'⟩ := q
      simp only [hp, Option.some.injEq, Prod.mk.injEq] at h
      obtain ⟨rfl, _⟩ := h
      have := pickDistinct_length _ _ draws [] idx rest' (by simp) hp
      calc (idx.filterMap ((hosts.filter p)[·]?)).length ≤ idx.length := List.length_filterMap_le _ _
        _ = count := this

theorem selectRegions_length (cx : Ctx) (sid : Nat) : ∀ (rc : List (String × Nat)) (draws : List Nat) (sel : List HostSpec) (rest : List Nat),
    selectRegions cx sid rc draws = some (sel, rest) → sel.length ≤ (rc.map (·.2)).sum := by
  intro rc
  induction rc with
  | nil => intro draws sel rest hs; simp [selectRegions] at hs; obtain ⟨rfl, _⟩ := hs; simp
  | cons p rc ih =>
    obtain ⟨reg, cnt⟩ := p
    intro draws sel rest hs
    unfold selectRegions at hs
    cases h1 : findSuitable cx.hosts (regionFilter cx sid reg) cnt draws with
    | none => simp [h1] at hs
    | some q =>
      obtain ⟨hs1, d1⟩ := q
      simp only [h1] at hs
      cases h2 : selectRegions cx sid rc d1 with
      | none => simp [h2] at hs
      | some q2 =>
        obtain ⟨hs2, d2⟩ := q2
        simp only [h2, Option.some.injEq, Prod.mk.injEq] at hs
        obtain ⟨rfl, _⟩ := hs
        have a := findSuitable_length _ _ _ _ _ _ h1
        have b := ih d1 hs2 d2 h2
        simp only [List.length_append, List.map_cons, List.sum_cons]
        omega

theorem sum_zip_le : ∀ (rs : List String) (cs : List Nat), ((rs.zip cs).map (·.2)).sum ≤ cs.sum := by
  intro rs
  induction rs with
  | nil => intro cs; simp
  | cons r rs ih =>
    intro cs
    cases cs with
    | nil => simp
    | cons c cs => simp only [List.zip_cons_cons, List.map_cons, List.sum_cons]; have := ih cs; omega

/-- C08 `plan_valid`, per shard: exactly one start request per member, on pairwise distinct live NodeHosts that do
    not host the shard and belong to a listed region; all requests carry the same member-to-address map -/
theorem launchShardF_valid (cx : Ctx) (rg : Regions) (d : ShardDef) (draws : List Nat) (reqs : List Request) (rest : List Nat)
    (h : launchShardF cx rg d draws = .ok reqs rest) :
    reqs.length = d.members.length ∧
    reqs.map (·.instantiateReplicaId) = d.members ∧
    (reqs.map (·.raftAddress)).Nodup ∧
    (∀ r ∈ reqs, r.type = .create ∧ r.join = false ∧ r.restore = false ∧ r.shardId = d.shardId ∧
      r.replicaIdList = d.members ∧ r.addressList = reqs.map (·.raftAddress) ∧ r.appName = d.appName ∧
      ∃ hst ∈ cx.hosts, hst.address = r.raftAddress ∧ liveFilter cx.tick nodeHostTTL hst = true ∧
        basicFilter d.shardId hst = true ∧ hst.region ∈ rg.region) := by
  unfold launchShardF at h
  split at h
  · cases h
  · split at h
    · cases h
    · cases hsel : selectRegions cx d.shardId (rg.region.zip rg.count) draws with
      | none => simp [hsel] at h
      | some q =>
        obtain ⟨sel, rest'⟩ := q
        simp only [hsel] at h
        split at h
        · cases h
        · rename_i hlen
          split at h
          · cases h
          · rename_i hnd
            simp only [Decidable.not_not] at hnd
            cases h
            rename_i hany hsum
            simp only [Decidable.not_not] at hsum
            have hle := selectRegions_length cx d.shardId _ draws sel rest hsel
            have hz := sum_zip_le rg.region rg.count
            have hlen' : sel.length = d.members.length := by omega
            have hzipLen : (d.members.zip sel).length = d.members.length := by simp [hlen']
            have hfst : (d.members.zip sel).map (·.1) = d.members := by
              simpa using List.map_fst_zip (l₁ := d.members) (l₂ := sel) (by omega)
            have hsnd : (d.members.zip sel).map (·.2) = sel := by
              simpa using List.map_snd_zip (l₁ := d.members) (l₂ := sel) (by omega)
            have haddrs : (launchReqs d sel).map (·.raftAddress) = sel.map (·.address) := by
              unfold launchReqs
              rw [List.map_map]
              have : ((fun r : Request => r.raftAddress) ∘ fun (p : Nat × HostSpec) =>
                  ({ type := .create, shardId := d.shardId, members := d.members, replicaIdList := d.members,
                     addressList := (sel.take d.members.length).map (·.address), instantiateReplicaId := p.1,
                     raftAddress := p.2.address, appName := d.appName } : Request)) = fun p => p.2.address := by
                funext p; rfl
              rw [this]
              have h2 : (d.members.zip sel).map (fun p => p.2.address) = ((d.members.zip sel).map (·.2)).map (·.address) := by
                rw [List.map_map]; rfl
              rw [h2, hsnd]
            refine ⟨by unfold launchReqs; simp [hzipLen], ?_, by rw [haddrs]; exact hnd, ?_⟩
            · unfold launchReqs
              rw [List.map_map]
              have : ((fun r : Request => r.instantiateReplicaId) ∘ fun (p : Nat × HostSpec) =>
                  ({ type := .create, shardId := d.shardId, members := d.members, replicaIdList := d.members,
                     addressList := (sel.take d.members.length).map (·.address), instantiateReplicaId := p.1,
                     raftAddress := p.2.address, appName := d.appName } : Request)) = fun p => p.1 := by
                funext p; rfl
              rw [this, hfst]
            · intro r hr
              have hr' := hr
              unfold launchReqs at hr'
              obtain ⟨p, hp, rfl⟩ := List.mem_map.mp hr'
              have htake : sel.take d.members.length = sel := by rw [← hlen']; exact List.take_length
              refine ⟨rfl, rfl, rfl, rfl, rfl, by simp only [haddrs, htake], rfl, ?_⟩
              have hpsel : p.2 ∈ sel := (List.of_mem_zip hp).2
              obtain ⟨a, b, c, q, hq, hreg⟩ := selectRegions_mem cx d.shardId _ draws sel rest hsel p.2 hpsel
              exact ⟨p.2, a, rfl, b, c, by rw [hreg]; exact (List.of_mem_zip hq).1⟩

#print axioms launchF_no_crash
#print axioms launchShardF_valid
end Drummer
