import DrummerVerif.Model.Lcm
/-! M-LCM: lifting the per-process table to any number of processes and any interleaving -/
namespace Lcm

/-- a global step: one process takes one of its local steps (coordinator or goroutine), every other process is untouched.
    The coordinator's sequentiality only *removes* interleavings from this product, so safety proved here is safety
    of the real system. -/
inductive GStep (p : Prog) : List L → List L → Prop
  | mk (pre post : List L) (s t : L) : t ∈ succ p s → GStep p (pre ++ s :: post) (pre ++ t :: post)

inductive GReach (p : Prog) (n : Nat) : List L → Prop
  | init : GReach p n (List.replicate n {})
  | step {g g'} : GReach p n g → GStep p g g' → GReach p n g'

/-- every component of every reachable global state is locally reachable -/
theorem greach_components (p : Prog) (n : Nat) (g : List L) (h : GReach p n g) : g.length = n ∧ ∀ s ∈ g, Reach p s := by
  induction h with
  | init => exact ⟨by simp, fun s hs => by rw [(List.mem_replicate.mp hs).2]; exact Reach.init⟩
  | step _ hstep ih =>
    cases hstep with
    | mk pre post s t ht =>
      refine ⟨by simpa using ih.1, ?_⟩
      intro x hx
      simp only [List.mem_append, List.mem_cons] at hx
      rcases hx with hx | rfl | hx
      · exact ih.2 x (by simp [hx])
      · exact Reach.step (ih.2 s (by simp)) ht
      · exact ih.2 x (by simp [hx])

/-- C07 (i) for any number of processes and any interleaving: no process ever appends an ill-formed event — per
    process the recorded events alternate invoke / completion, every invoke is recorded before its rpc starts, every
    completion after it returned, and nothing is invoked after a recorded failure -/
theorem all_processes_good (n : Nat) (g : List L) (h : GReach genProg n g) : ∀ s ∈ g, s.bad = false :=
  fun s hs => all_good s ((greach_components genProg n g h).2 s hs)

#print axioms all_processes_good
end Lcm
