import DrummerVerif.Lemmas.WglC
/-! C06 spec bridge: inductive `Lin` ↔ existence of a total order respecting real time (prototype) -/
namespace WGL

/-- `x` occurs, and `y` occurs somewhere after that occurrence -/
def Before {α : Type} (l : List α) (x y : α) : Prop := ∃ l1 l2, l = l1 ++ x :: l2 ∧ y ∈ l2

theorem before_filter_iff {α : Type} (p : α → Bool) (l : List α) (x y : α) (hx : p x = true) (hy : p y = true) :
    Before (l.filter p) x y ↔ Before l x y := by
  constructor
  · rintro ⟨m1, m2, hm, hym⟩
    obtain ⟨l1, l2', hl, h1, h2⟩ := List.filter_eq_append_iff.mp hm
    obtain ⟨k1, k2, hk, hk1, _, hk2⟩ := List.filter_eq_cons_iff.mp h2
    refine ⟨l1 ++ k1, k2, by rw [hl, hk]; simp, ?_⟩
    have : y ∈ List.filter p k2 := hk2 ▸ hym
    exact (List.mem_filter.mp this).1
  · rintro ⟨l1, l2, hl, hy2⟩
    refine ⟨l1.filter p, l2.filter p, ?_, List.mem_filter.mpr ⟨hy2, hy⟩⟩
    rw [hl, List.filter_append, List.filter_cons, if_pos hx]

theorem before_cons_of_before {α : Type} (l : List α) (z x y : α) (h : Before l x y) : Before (z :: l) x y := by
  obtain ⟨l1, l2, hl, hy⟩ := h
  exact ⟨z :: l1, l2, by simp [hl], hy⟩

variable {S I O : Type}

/-- real-time precedence: the return of `a` precedes the call of `b` -/
def Prec (H : List Entry) (a b : Nat) : Prop := Before H ⟨.ret, a⟩ ⟨.call, b⟩

/-- ids of the operations (calls) in `H` -/
def opIds (H : List Entry) : List Nat := (H.filter (fun e => e.kind == .call)).map (·.id)

def Legal (m : Model S I O) (inp : Nat → I) (out : Nat → O) : S → List Nat → Prop
  | _, [] => True
  | st, i :: rest => (m.step st (inp i) (out i)).1 = true ∧ Legal m inp out (m.step st (inp i) (out i)).2 rest

/-- the property's own notion: some arrangement of the operations respects real time and the model -/
def Linearizable (m : Model S I O) (inp : Nat → I) (out : Nat → O) (H : List Entry) (st : S) : Prop :=
  ∃ ord : List Nat, ord.Perm (opIds H) ∧ (∀ a b, Prec H a b → ¬ Before ord b a) ∧ Legal m inp out st ord

/-- complete, well-formed history -/
structure WFHist (H : List Entry) : Prop where
  nodup : H.Nodup
  ret_after_call : ∀ i, ⟨.ret, i⟩ ∈ H → Before H ⟨.call, i⟩ ⟨.ret, i⟩
  call_has_ret : ∀ i, ⟨.call, i⟩ ∈ H → ⟨.ret, i⟩ ∈ H

theorem mem_minCalls_iff (H : List Entry) (i : Nat) :
    i ∈ minCalls H ↔ ∃ l1 l2, H = l1 ++ ⟨.call, i⟩ :: l2 ∧ ∀ x ∈ l1, x.kind = .call := by
  induction H with
  | nil => simp [minCalls]
  | cons e es ih =>
    cases hk : e.kind with
    | ret =>
      simp only [minCalls, hk, List.not_mem_nil, false_iff]
      rintro ⟨l1, l2, hl, hall⟩
      cases l1 with
      | nil => simp at hl; rw [hl.1] at hk; cases hk
      | cons x xs =>
        simp at hl
        have := hall x (by simp)
        rw [← hl.1, hk] at this; cases this
    | call =>
      simp only [minCalls, hk, List.mem_cons]
      constructor
      · rintro (h | h)
        · refine ⟨[], es, ?_, by simp⟩
          cases e; simp_all
        · obtain ⟨l1, l2, hl, hall⟩ := ih.mp h
          refine ⟨e :: l1, l2, by simp [hl], ?_⟩
          intro x hx
          rcases List.mem_cons.mp hx with hx | hx
          · subst hx; exact hk
          · exact hall x hx
      · rintro ⟨l1, l2, hl, hall⟩
        cases l1 with
        | nil => left; simp at hl; rw [hl.1]
        | cons x xs =>
          right
          simp at hl
          exact ih.mpr ⟨xs, l2, hl.2, fun y hy => hall y (by simp [hy])⟩

theorem opIds_cons (e : Entry) (es : List Entry) :
    opIds (e :: es) = if e.kind = .call then e.id :: opIds es else opIds es := by
  unfold opIds
  cases hk : e.kind <;> simp [List.filter_cons, hk]

theorem lift_cons (e : Entry) (es : List Entry) (i : Nat) :
    lift (e :: es) i = if e.id = i then lift es i else e :: lift es i := by
  unfold lift
  by_cases h : e.id = i <;> simp [List.filter_cons, h]

theorem opIds_lift_of_no_call (es : List Entry) (i : Nat) (h : (⟨.call, i⟩ : Entry) ∉ es) :
    opIds (lift es i) = opIds es := by
  induction es with
  | nil => rfl
  | cons e es ih =>
    have h1 : (⟨.call, i⟩ : Entry) ∉ es := fun hh => h (List.mem_cons_of_mem _ hh)
    have h2 : e ≠ ⟨.call, i⟩ := fun hh => h (by simp [hh])
    rw [lift_cons]
    by_cases hid : e.id = i
    · rw [if_pos hid, ih h1, opIds_cons]
      have : e.kind ≠ .call := by
        intro hk; apply h2; cases e; simp_all
      simp [this]
    · rw [if_neg hid, opIds_cons, opIds_cons, ih h1]

theorem opIds_perm (H : List Entry) (i : Nat) (hnd : H.Nodup) (hc : (⟨.call, i⟩ : Entry) ∈ H) :
    (opIds H).Perm (i :: opIds (lift H i)) := by
  induction H with
  | nil => simp at hc
  | cons e es ih =>
    have hnd' := (List.nodup_cons.mp hnd)
    by_cases he : e = ⟨.call, i⟩
    · subst he
      rw [opIds_cons, lift_cons]
      simp only [if_true]
      rw [opIds_lift_of_no_call es i hnd'.1]
    · have hces : (⟨.call, i⟩ : Entry) ∈ es := by
        rcases List.mem_cons.mp hc with h | h
        · exact absurd h.symm he
        · exact h
      have ih' := ih hnd'.2 hces
      rw [opIds_cons, lift_cons]
      by_cases hk : e.kind = .call
      · have hid : e.id ≠ i := by
          intro hid; apply he; cases e; simp_all
        rw [if_pos hk, if_neg hid, opIds_cons, if_pos hk]
        exact (List.Perm.cons _ ih').trans (List.Perm.swap _ _ _)
      · rw [if_neg hk]
        by_cases hid : e.id = i
        · rw [if_pos hid]; exact ih'
        · rw [if_neg hid, opIds_cons, if_neg hk]; exact ih'

theorem mem_opIds {H : List Entry} {i : Nat} : i ∈ opIds H ↔ (⟨.call, i⟩ : Entry) ∈ H := by
  unfold opIds
  simp only [List.mem_map, List.mem_filter, beq_iff_eq]
  constructor
  · rintro ⟨e, ⟨he, hk⟩, hid⟩
    cases e; simp_all
  · intro h; exact ⟨⟨.call, i⟩, ⟨h, rfl⟩, rfl⟩

theorem mem_lift {H : List Entry} {i : Nat} {e : Entry} : e ∈ lift H i ↔ e ∈ H ∧ e.id ≠ i := by
  unfold lift; simp

theorem before_lift_iff (H : List Entry) (i : Nat) (x y : Entry) (hx : x.id ≠ i) (hy : y.id ≠ i) :
    Before (lift H i) x y ↔ Before H x y := by
  unfold lift
  exact before_filter_iff _ H x y (by simp [hx]) (by simp [hy])

theorem wf_lift {H : List Entry} (h : WFHist H) (i : Nat) : WFHist (lift H i) := by
  refine ⟨?_, ?_, ?_⟩
  · unfold lift; exact h.nodup.sublist List.filter_sublist
  · intro j hj
    have := mem_lift.mp hj
    have hji : j ≠ i := this.2
    exact (before_lift_iff H i _ _ hji hji).mpr (h.ret_after_call j this.1)
  · intro j hj
    have := mem_lift.mp hj
    exact mem_lift.mpr ⟨h.call_has_ret j this.1, this.2⟩

theorem before_nodup_irrefl {α : Type} {l : List α} (hnd : l.Nodup) {x : α} : ¬ Before l x x := by
  rintro ⟨l1, l2, hl, hx⟩
  rw [hl] at hnd
  have := (List.nodup_append.mp hnd).2.1
  exact (List.nodup_cons.mp this).1 hx

theorem before_asymm {α : Type} {l : List α} (hnd : l.Nodup) {x y : α} (h1 : Before l x y) : ¬ Before l y x := by
  rintro ⟨m1, m2, hm, hxm⟩
  obtain ⟨l1, l2, hl, hyl⟩ := h1
  -- y ∈ l2 where l = l1 ++ x :: l2 ; x ∈ m2 where l = m1 ++ y :: m2
  rw [hl] at hm
  rcases List.append_eq_append_iff.mp hm with ⟨a, ha1, ha2⟩ | ⟨a, ha1, ha2⟩
  · -- m1 = l1 ++ a, x :: l2 = a ++ y :: m2
    cases a with
    | nil =>
      simp at ha2
      -- x = y
      rw [hl] at hnd
      have := (List.nodup_cons.mp (List.nodup_append.mp hnd).2.1).1
      rw [ha2.1] at this; exact this hyl
    | cons z zs =>
      simp at ha2
      -- x = z, l2 = zs ++ y :: m2 ; x ∈ m2 ⊆ l2 contradicts nodup
      rw [hl] at hnd
      have := (List.nodup_cons.mp (List.nodup_append.mp hnd).2.1).1
      apply this; rw [ha2.2]; simp [hxm]
  · -- l1 = m1 ++ a, y :: m2 = a ++ x :: l2
    cases a with
    | nil =>
      simp at ha2
      rw [hl] at hnd
      have := (List.nodup_cons.mp (List.nodup_append.mp hnd).2.1).1
      rw [← ha2.1] at this; exact this hyl
    | cons z zs =>
      simp at ha2
      -- y = z, m2 = zs ++ x :: l2 ; y ∈ l2 ⊆ m2 : l = m1 ++ y :: m2 nodup → contradiction
      have hnd2 : (m1 ++ y :: m2).Nodup := by rw [← hm, ← hl]; exact hnd
      have := (List.nodup_cons.mp (List.nodup_append.mp hnd2).2.1).1
      apply this; rw [ha2.2]; simp [hyl]

theorem mem_of_before_left {α : Type} {l : List α} {x y : α} (h : Before l x y) : x ∈ l := by
  obtain ⟨l1, l2, hl, _⟩ := h; rw [hl]; simp
theorem mem_of_before_right {α : Type} {l : List α} {x y : α} (h : Before l x y) : y ∈ l := by
  obtain ⟨l1, l2, hl, hy⟩ := h; rw [hl]; simp [hy]

theorem before_of_split {α : Type} {p1 p2 : List α} {x y : α} (hx : x ∈ p1) :
    Before (p1 ++ y :: p2) x y := by
  obtain ⟨r1, r2, hr⟩ := List.append_of_mem hx
  exact ⟨r1, r2 ++ y :: p2, by rw [hr]; simp, by simp⟩

variable (m : Model S I O) (inp : Nat → I) (out : Nat → O)

/-- a minimal call is not real-time preceded by anything -/
theorem no_prec_of_minCall {H : List Entry} (hwf : WFHist H) {i : Nat} (hmin : i ∈ minCalls H) (a : Nat) :
    ¬ Prec H a i := by
  intro hprec
  obtain ⟨p1, p2, hp, hall⟩ := (mem_minCalls_iff H i).mp hmin
  have hret : (⟨.ret, a⟩ : Entry) ∈ H := mem_of_before_left hprec
  rw [hp] at hret
  rcases List.mem_append.mp hret with h | h
  · have := hall _ h; cases this
  · rcases List.mem_cons.mp h with h | h
    · cases h
    · have hb : Before H ⟨.call, i⟩ ⟨.ret, a⟩ := ⟨p1, p2, hp, h⟩
      exact before_asymm hwf.nodup hb hprec

theorem linearizable_of_lin (H : List Entry) (st : S) (hwf : WFHist H) (h : Lin m inp out H st) :
    Linearizable m inp out H st := by
  induction h with
  | nil st => exact ⟨[], by simp [opIds], by rintro a b _ ⟨l1, l2, hl, _⟩; simp at hl, trivial⟩
  | step rem st i hmin hok _ ih =>
    obtain ⟨ord', hperm, hrt, hleg⟩ := ih (wf_lift hwf i)
    obtain ⟨p1, p2, hp, hall⟩ := (mem_minCalls_iff rem i).mp hmin
    have hcall : (⟨.call, i⟩ : Entry) ∈ rem := by rw [hp]; simp
    have hperm' : (i :: ord').Perm (opIds rem) :=
      (List.Perm.cons i hperm).trans (opIds_perm rem i hwf.nodup hcall).symm
    refine ⟨i :: ord', hperm', ?_, ⟨hok, hleg⟩⟩
    intro a b hprec hbef
    obtain ⟨l1, l2, hl, ha2⟩ := hbef
    cases l1 with
    | nil =>
      simp at hl
      rw [← hl.1] at hprec
      exact no_prec_of_minCall hwf hmin a hprec
    | cons z zs =>
      simp at hl
      have hbo : Before ord' b a := ⟨zs, l2, hl.2, ha2⟩
      have hne : ∀ x, x ∈ ord' → x ≠ i := by
        intro x hx
        have := mem_opIds.mp ((hperm.mem_iff).mp hx)
        exact (mem_lift.mp this).2
      have ha : a ≠ i := hne a (mem_of_before_right hbo)
      have hb : b ≠ i := hne b (mem_of_before_left hbo)
      exact hrt a b ((before_lift_iff rem i _ _ ha hb).mpr hprec) hbo

theorem lin_of_linearizable : ∀ (n : Nat) (H : List Entry) (st : S), H.length ≤ n → WFHist H →
    Linearizable m inp out H st → Lin m inp out H st := by
  intro n
  induction n with
  | zero =>
    intro H st hlen _ _
    have : H = [] := by cases H <;> simp_all
    subst this; exact Lin.nil st
  | succ n ih =>
    intro H st hlen hwf ⟨ord, hperm, hrt, hleg⟩
    cases ord with
    | nil =>
      have hnil : opIds H = [] := List.Perm.eq_nil hperm.symm
      have : H = [] := by
        cases H with
        | nil => rfl
        | cons e es =>
          exfalso
          have hcall : (⟨.call, e.id⟩ : Entry) ∈ e :: es := by
            cases hk : e.kind with
            | call => have : e = ⟨.call, e.id⟩ := by cases e; simp_all
                      rw [← this]; simp
            | ret => have : e = ⟨.ret, e.id⟩ := by cases e; simp_all
                     exact mem_of_before_left (hwf.ret_after_call e.id (by rw [← this]; simp))
          have := mem_opIds.mpr hcall
          rw [hnil] at this; simp at this
      subst this; exact Lin.nil st
    | cons i ord' =>
      have hi : i ∈ opIds H := (hperm.mem_iff).mp (by simp)
      have hcall : (⟨.call, i⟩ : Entry) ∈ H := mem_opIds.mp hi
      obtain ⟨p1, p2, hp⟩ := List.append_of_mem hcall
      have hmin : i ∈ minCalls H := by
        refine (mem_minCalls_iff H i).mpr ⟨p1, p2, hp, ?_⟩
        intro x hx
        cases hk : x.kind with
        | call => rfl
        | ret =>
          exfalso
          have hxe : x = ⟨.ret, x.id⟩ := by cases x; simp_all
          have hprec : Prec H x.id i := by
            unfold Prec; rw [hp, ← hxe]; exact before_of_split hx
          have hxH : (⟨.ret, x.id⟩ : Entry) ∈ H := mem_of_before_left hprec
          have hrac := hwf.ret_after_call x.id hxH
          have hxa : x.id ∈ i :: ord' := (hperm.mem_iff).mpr (mem_opIds.mpr (mem_of_before_left hrac))
          rcases List.mem_cons.mp hxa with h | h
          · rw [h] at hprec hrac
            exact before_asymm hwf.nodup hrac hprec
          · exact hrt x.id i hprec ⟨[], ord', rfl, h⟩
      have hperm2 : ord'.Perm (opIds (lift H i)) :=
        List.Perm.cons_inv (hperm.trans (opIds_perm H i hwf.nodup hcall))
      refine Lin.step H st i hmin hleg.1 ?_
      apply ih (lift H i) _ (by have := length_lift_lt hcall; simp at this ⊢; omega) (wf_lift hwf i)
      refine ⟨ord', hperm2, ?_, hleg.2⟩
      intro a b hprec hbo
      have ha : a ≠ i := (mem_lift.mp (mem_of_before_left hprec)).2
      have hb : b ≠ i := (mem_lift.mp (mem_of_before_right hprec)).2
      exact hrt a b ((before_lift_iff H i _ _ ha hb).mp hprec) (before_cons_of_before ord' i b a hbo)

/-- exactness of the memoised search w.r.t. the property's own notion of linearizability -/
theorem check_exact [DecidableEq S] (H : List Entry) (hwf : WFHist H) :
    (dfs m inp out (H.length + 1) H m.init [] []).1 = true ↔ Linearizable m inp out H m.init := by
  rw [check_iff]
  exact ⟨linearizable_of_lin m inp out H m.init hwf, lin_of_linearizable m inp out _ H m.init (Nat.le_refl _) hwf⟩

#print axioms check_exact
end WGL
