import DrummerVerif.Lemmas.LoopH
/-! M-LOOP: executing a whole received batch keeps every group well-formed -/
namespace Drummer

/-- what must be known about a received request for its execution to be safe: membership changes are `ReqOK`
    and carry an existing version; a bootstrap-CREATE only ever arrives for a shard whose group exists -/
def LaunchOK (size : Nat → Nat) (r : Request) : Prop :=
  ({ ver := 0, members := r.replicaIdList.zip r.addressList, removed := [] } : Membership).WF (size r.shardId)

def ExecOK (size : Nat → Nat) (l : Loop) (r : Request) : Prop :=
  ((r.type = .add ∨ r.type = .delete) →
    r.confChangeId ≤ l.nextVer ∧ ∀ g, l.group? r.shardId = some g → ReqOK g (size r.shardId) r) ∧
  (r.type = .create → r.join = false → r.restore = false → (l.group? r.shardId).isSome = true ∨ LaunchOK size r)

/-- the group a bootstrap-CREATE founds when it is the first of its shard to be executed -/
def freshGroup (l : Loop) (r : Request) : Group :=
  { shard := r.shardId, hist := [{ ver := l.nextVer + 1, members := r.replicaIdList.zip r.addressList, removed := [] }] }

/-- `l'` is `l` with the founding group of `r` appended -/
structure Founded (l l' : Loop) (r : Request) : Prop where
  none : l.group? r.shardId = none
  groups : l'.groups = l.groups ++ [freshGroup l r]
  nextVer : l'.nextVer = l.nextVer + 1
  boot : r.join = false ∧ r.restore = false

theorem setGroup_fresh (l : Loop) (g : Group) (h : l.group? g.shard = none) : (l.setGroup g).groups = l.groups ++ [g] := by
  unfold Loop.setGroup
  have : l.groups.any (·.shard == g.shard) = false := by
    unfold Loop.group? at h
    have := List.find?_eq_none.mp h
    apply Bool.eq_false_iff.mpr
    intro ha
    obtain ⟨x, hx, hxs⟩ := List.any_eq_true.mp ha
    exact this x hx hxs
  simp [this]

/-- executing a CREATE either leaves groups and versions alone or founds the shard's group -/
theorem execCreate_cases (l : Loop) (h : Host) (r : Request) :
    ((l.execCreate h r).groups = l.groups ∧ (l.execCreate h r).nextVer = l.nextVer) ∨ Founded l (l.execCreate h r) r := by
  unfold Loop.execCreate
  simp only
  split
  · exact Or.inl ⟨rfl, rfl⟩
  · split
    · split <;> exact Or.inl ⟨rfl, rfl⟩
    · split
      · exact Or.inl ⟨rfl, rfl⟩
      · rename_i hnr hnj
        split
        · exact Or.inl ⟨rfl, rfl⟩
        · have hj : r.join = false := by simpa using hnj
          have hr : r.restore = false := by
            cases hres : r.restore with
            | false => rfl
            | true => simp [hres, hj] at hnr
          cases hg : (l.group? r.shardId).isSome with
          | true => simp only [if_true]; exact Or.inl ⟨rfl, rfl⟩
          | false =>
            right
            have hnone : l.group? r.shardId = none := by simpa using hg
            simp only [Bool.false_eq_true, if_false]
            refine ⟨hnone, ?_, ?_, hj, hr⟩
            · show (({ l with nextVer := l.nextVer + 1 } : Loop).setGroup (freshGroup l r)).groups = _
              exact setGroup_fresh _ (freshGroup l r) hnone
            · show (({ l with nextVer := l.nextVer + 1 } : Loop).setGroup (freshGroup l r)).nextVer = _
              unfold Loop.setGroup; split <;> rfl

theorem group?_founded (l l' : Loop) (r : Request) (hf : Founded l l' r) (s : Nat) :
    l'.group? s = if s = r.shardId then some (freshGroup l r) else l.group? s := by
  unfold Loop.group?
  rw [hf.groups, List.find?_append]
  by_cases hs : s = r.shardId
  · subst hs
    have := hf.none; unfold Loop.group? at this
    simp [this, freshGroup]
  · simp only [hs, if_false]
    have : ([freshGroup l r].find? (·.shard == s)) = none := by
      simp [freshGroup]; exact fun h => hs h.symm
    rw [this]; simp

theorem founded_wf (size : Nat → Nat) (l l' : Loop) (r : Request) (hf : Founded l l' r) (hl : LaunchOK size r)
    (hw : l.GroupsWF size) : l'.GroupsWF size := by
  intro g hg
  rw [hf.groups] at hg
  rcases List.mem_append.mp hg with hg | hg
  · exact hw g hg
  · simp only [List.mem_singleton] at hg
    subst hg
    refine ⟨by simp [freshGroup], ?_⟩
    intro m hm
    simp only [freshGroup, List.mem_singleton] at hm
    subst hm
    exact ⟨hl.ids, hl.addrs, hl.lower, hl.upper⟩

theorem founded_execOK (size : Nat → Nat) (l l' : Loop) (r r' : Request) (hf : Founded l l' r) (hr' : ExecOK size l r') :
    ExecOK size l' r' := by
  obtain ⟨h1, h2⟩ := hr'
  constructor
  · intro ht
    obtain ⟨hle, hok⟩ := h1 ht
    refine ⟨by rw [hf.nextVer]; omega, ?_⟩
    intro g hg
    rw [group?_founded l l' r hf] at hg
    split at hg
    · cases hg
      intro m hm hver
      simp only [freshGroup, List.mem_singleton] at hm
      subst hm
      simp at hver; omega
    · exact hok g hg
  · intro a b c
    rcases h2 a b c with hex | hl
    · left
      rw [group?_founded l l' r hf]
      split
      · rfl
      · exact hex
    · exact Or.inr hl

theorem execKill_groups (l : Loop) (h : Host) (r : Request) :
    (l.execKill h r).groups = l.groups ∧ (l.execKill h r).nextVer = l.nextVer := by
  unfold Loop.execKill
  split
  · split <;> exact ⟨rfl, rfl⟩
  · exact ⟨rfl, rfl⟩

theorem execCreate_groups (l : Loop) (h : Host) (r : Request)
    (hl : r.join = false → r.restore = false → (l.group? r.shardId).isSome = true) :
    (l.execCreate h r).groups = l.groups ∧ (l.execCreate h r).nextVer = l.nextVer := by
  unfold Loop.execCreate
  simp only
  split
  · exact ⟨rfl, rfl⟩
  · split
    · split <;> exact ⟨rfl, rfl⟩
    · split
      · exact ⟨rfl, rfl⟩
      · rename_i hnr hnj
        split
        · exact ⟨rfl, rfl⟩
        · have hj : r.join = false := by simpa using hnj
          have hr : r.restore = false := by
            cases hres : r.restore with
            | false => rfl
            | true => simp [hres, hj] at hnr
          have := hl hj hr
          simp only [this, if_true]
          exact ⟨rfl, rfl⟩

theorem setGroup_nextVer (l : Loop) (g : Group) : (l.setGroup g).nextVer = l.nextVer := by
  unfold Loop.setGroup; split <;> rfl

theorem execChange_nextVer (l : Loop) (h : Host) (r : Request) : l.nextVer ≤ (l.execChange h r).nextVer := by
  unfold Loop.execChange
  cases hg : l.group? r.shardId with
  | none => exact Nat.le_refl _
  | some g =>
    cases hid : r.members.head? with
    | none => exact Nat.le_refl _
    | some id =>
      simp only
      cases ha : l.changeApplicable h g r with
      | none => exact Nat.le_refl _
      | some rep =>
        simp only
        cases hm : changeMembers g.cur r id with
        | none => exact Nat.le_refl _
        | some p =>
          obtain ⟨ms, rm⟩ := p
          simp only
          show l.nextVer ≤ ((({ l with nextVer := l.nextVer + 1 } : Loop).setGroup _).setHost _).nextVer
          have : ∀ (x : Loop) (hh : Host), (x.setHost hh).nextVer = x.nextVer := fun _ _ => rfl
          rw [this, setGroup_nextVer]
          show l.nextVer ≤ l.nextVer + 1
          omega

/-- the group of `s` after `execChange` is the old one, possibly with one more membership of version `nextVer + 1` -/
theorem execChange_group (l : Loop) (h : Host) (r : Request) (s : Nat) (g' : Group)
    (hg' : (l.execChange h r).group? s = some g') :
    ∃ g, l.group? s = some g ∧ (g'.hist = g.hist ∨ ∃ m, m.ver = l.nextVer + 1 ∧ g'.hist = g.hist ++ [m]) := by
  unfold Loop.execChange at hg'
  cases hg : l.group? r.shardId with
  | none => simp only [hg] at hg'; exact ⟨g', hg', Or.inl rfl⟩
  | some g =>
    cases hid : r.members.head? with
    | none => simp only [hg, hid] at hg'; exact ⟨g', hg', Or.inl rfl⟩
    | some id =>
      simp only [hg, hid] at hg'
      cases ha : l.changeApplicable h g r with
      | none => simp only [ha] at hg'; exact ⟨g', hg', Or.inl rfl⟩
      | some rep =>
        simp only [ha] at hg'
        cases hm : changeMembers g.cur r id with
        | none => simp only [hm] at hg'; exact ⟨g', hg', Or.inl rfl⟩
        | some p =>
          obtain ⟨ms, rm⟩ := p
          simp only [hm] at hg'
          have hgs : g.shard = r.shardId := (group?_mem l _ g hg).2
          have : ((({ l with nextVer := l.nextVer + 1 } : Loop).setGroup
              { g with hist := g.hist ++ [{ ver := l.nextVer + 1, members := ms, removed := rm }] }).group? s) = some g' := hg'
          rw [group?_setGroup] at this
          by_cases hs : g.shard = s
          · simp only [hs, if_true, Option.some.injEq] at this
            subst this
            refine ⟨g, by rw [← hs, hgs]; exact hg, Or.inr ⟨_, rfl, rfl⟩⟩
          · simp only [hs, if_false] at this
            exact ⟨g', this, Or.inl rfl⟩

/-- a justified request stays justified while histories only grow by memberships with larger versions -/
theorem execOK_after_change (size : Nat → Nat) (l : Loop) (h : Host) (r r' : Request) (hr' : ExecOK size l r') :
    ExecOK size (l.execChange h r) r' := by
  obtain ⟨h1, h2⟩ := hr'
  constructor
  · intro ht
    obtain ⟨hle, hok⟩ := h1 ht
    refine ⟨Nat.le_trans hle (execChange_nextVer l h r), ?_⟩
    intro g' hg'
    obtain ⟨g, hg, hhist⟩ := execChange_group l h r _ g' hg'
    intro m hm hver
    rcases hhist with he | ⟨mn, hmn, he⟩
    · exact hok g hg m (he ▸ hm) hver
    · rw [he] at hm
      rcases List.mem_append.mp hm with hm | hm
      · exact hok g hg m hm hver
      · simp at hm; subst hm; omega
  · intro a b c
    refine (h2 a b c).imp (fun this => ?_) id
    cases hgq : l.group? r'.shardId with
    | none => rw [hgq] at this; cases this
    | some g =>
      -- the group still exists afterwards
      unfold Loop.execChange
      cases hg0 : l.group? r.shardId with
      | none => simp [hgq]
      | some g0 =>
        cases hid : r.members.head? with
        | none => simp [hgq]
        | some id =>
          simp only
          cases ha : l.changeApplicable h g0 r with
          | none => simp [hgq]
          | some rep =>
            simp only
            cases hm : changeMembers g0.cur r id with
            | none => simp [hgq]
            | some p =>
              obtain ⟨ms, rm⟩ := p
              simp only
              show ((({ l with nextVer := l.nextVer + 1 } : Loop).setGroup _).group? r'.shardId).isSome = true
              rw [group?_setGroup]
              split
              · rfl
              · show (l.group? r'.shardId).isSome = true; rw [hgq]; rfl

theorem groupsWF_of_groups_eq (size : Nat → Nat) (l l' : Loop) (h : l'.groups = l.groups) (hw : l.GroupsWF size) :
    l'.GroupsWF size := by unfold Loop.GroupsWF at *; rw [h]; exact hw

theorem execOK_of_same (size : Nat → Nat) (l l' : Loop) (hg : l'.groups = l.groups) (hn : l'.nextVer = l.nextVer)
    (r : Request) (h : ExecOK size l r) : ExecOK size l' r := by
  have hq : ∀ s, l'.group? s = l.group? s := by intro s; unfold Loop.group?; rw [hg]
  unfold ExecOK at *
  simp only [hq, hn]
  exact h

/-- one received request, of any kind, executed on any host -/
theorem exec1_step (size : Nat → Nat) (l : Loop) (a : Addr) (r : Request) (hw : l.GroupsWF size) (hr : ExecOK size l r) :
    (l.exec1 a r).GroupsWF size ∧ ∀ r', ExecOK size l r' → ExecOK size (l.exec1 a r) r' := by
  unfold Loop.exec1
  cases hh : l.host? a with
  | none => exact ⟨hw, fun _ h => h⟩
  | some h =>
    simp only
    cases ht : r.type with
    | create =>
      simp only
      rcases execCreate_cases l h r with ⟨e1, e2⟩ | hf
      · exact ⟨groupsWF_of_groups_eq size l _ e1 hw, fun r' h' => execOK_of_same size l _ e1 e2 r' h'⟩
      · rcases hr.2 ht hf.boot.1 hf.boot.2 with hex | hl
        · rw [hf.none] at hex; cases hex
        · exact ⟨founded_wf size l _ r hf hl hw, fun r' h' => founded_execOK size l _ r r' hf h'⟩
    | kill =>
      simp only
      obtain ⟨e1, e2⟩ := execKill_groups l h r
      exact ⟨groupsWF_of_groups_eq size l _ e1 hw, fun r' h' => execOK_of_same size l _ e1 e2 r' h'⟩
    | add =>
      simp only
      exact ⟨execChange_wf size l h r hw (hr.1 (Or.inl ht)).2 (Or.inl ht), fun r' h' => execOK_after_change size l h r r' h'⟩
    | delete =>
      simp only
      exact ⟨execChange_wf size l h r hw (hr.1 (Or.inr ht)).2 (Or.inr ht), fun r' h' => execOK_after_change size l h r r' h'⟩

/-- C02 `size_bounds` / `no_colocation`, for a whole batch: executing any list of received requests that were
    justified when received — in order, on any host — keeps every membership of every group well-formed -/
theorem execList_wf (size : Nat → Nat) (a : Addr) : ∀ (q : List Request) (l : Loop), l.GroupsWF size →
    (∀ r ∈ q, ExecOK size l r) → (q.foldl (fun l r => l.exec1 a r) l).GroupsWF size := by
  intro q
  induction q with
  | nil => intro l hw _; exact hw
  | cons r rest ih =>
    intro l hw hq
    simp only [List.foldl_cons]
    obtain ⟨hw', hstable⟩ := exec1_step size l a r hw (hq r (by simp))
    exact ih _ hw' (fun r' hr' => hstable r' (hq r' (by simp [hr'])))

#print axioms execOK_after_change
#print axioms execList_wf
end Drummer
