import DrummerVerif.Lemmas.LoopInv
import DrummerVerif.Lemmas.C04
import DrummerVerif.Lemmas.C12
/-! M-LOOP glue: a repair decision taken on a view that mirrors the group history is `ReqOK` for that group -/
namespace Drummer

/-- the membership history function of a loop state -/
def Loop.H (l : Loop) : Hist := fun s v =>
  match l.group? s with
  | some g => match g.hist.find? (·.ver == v) with
    | some m => m.members
    | none => []
  | none => []

/-- versions identify memberships inside a group history -/
def Group.VersionsUnique (g : Group) : Prop := ∀ m ∈ g.hist, ∀ m' ∈ g.hist, m.ver = m'.ver → m = m'

theorem find?_ver (g : Group) (hu : g.VersionsUnique) (m : Membership) (hm : m ∈ g.hist) :
    g.hist.find? (·.ver == m.ver) = some m := by
  cases hf : g.hist.find? (·.ver == m.ver) with
  | none =>
    have := List.find?_eq_none.mp hf m hm
    simp at this
  | some m' =>
    have h1 := List.mem_of_find?_eq_some hf
    have h2 : m'.ver = m.ver := by simpa using List.find?_some hf
    rw [hu m' h1 m hm h2]

theorem nodup_of_nodup_map_fst {α β : Type} (l : List (α × β)) (h : (l.map (·.1)).Nodup) : l.Nodup := by
  induction l with
  | nil => exact List.nodup_nil
  | cons x xs ih =>
    simp only [List.map_cons, List.nodup_cons] at h ⊢
    exact ⟨fun hx => h.1 (List.mem_map_of_mem hx), ih h.2⟩

theorem same_length_of_same_set {α : Type} [DecidableEq α] (l1 l2 : List α) (h1 : l1.Nodup) (h2 : l2.Nodup)
    (h : ∀ x, x ∈ l1 ↔ x ∈ l2) : l1.length = l2.length := by
  have a := h1.length_le_of_subset (fun x hx => (h x).mp hx)
  have b := h2.length_le_of_subset (fun x hx => (h x).mpr hx)
  omega

/-- if the view mirrors the history, it has as many members as the membership carrying the view's version -/
theorem mirror_length (l : Loop) (c : Shard) (g : Group) (m : Membership)
    (hg : l.group? c.shardId = some g) (hu : g.VersionsUnique) (hm : m ∈ g.hist) (hver : m.ver = c.cci)
    (hmids : (m.members.map (·.1)).Nodup) (hmir : c.Mirrors l.H) : m.members.length = c.replicas.length := by
  have hH : l.H c.shardId c.cci = m.members := by
    unfold Loop.H
    simp only [hg]
    rw [← hver, find?_ver g hu m hm]
  have hpairs : c.pairs.Nodup := by
    apply nodup_of_nodup_map_fst
    have : c.pairs.map (·.1) = c.replicas.map (·.replicaId) := by
      unfold Shard.pairs; rw [List.map_map]; rfl
    rw [this]; exact hmir.nodup
  have hlen : c.pairs.length = c.replicas.length := by unfold Shard.pairs; simp
  rw [← hlen]
  exact (same_length_of_same_set c.pairs m.members hpairs (nodup_of_nodup_map_fst _ hmids)
    (fun p => by rw [hmir.same p, hH])).symm

/-- C02 glue: every ADD / DELETE the scheduler derives from a view that mirrors the group history is justified
    with respect to the membership at the version it carries -/
theorem repairJust_reqOK (l : Loop) (size : Nat → Nat) (cx : Ctx) (cr : ShardRepair) (r : Request) (g : Group)
    (hg : l.group? r.shardId = some g) (hu : g.VersionsUnique)
    (hids : ∀ m ∈ g.hist, (m.members.map (·.1)).Nodup)
    (hmir : cr.shard.Mirrors l.H)
    (hparts : cr.failed.length + cr.ok.length + cr.toStart.length = cr.shard.replicas.length)
    (hsize : ∀ d, cx.def? cr.shard.shardId = some d → d.members.length = size r.shardId)
    (hj : RepairJust cx cr r) : ReqOK g (size r.shardId) r := by
  intro m hm hver
  have hsh := hj.shard
  have hg' : l.group? cr.shard.shardId = some g := hsh ▸ hg
  rcases hj.just with ⟨ht, hcci, _, _, _, d, hd, hgt⟩ | ⟨ht, _⟩ | ⟨ht, hcci, _, _, _, _, _, ⟨d, hd, hle⟩, _⟩
  · have hlen := mirror_length l cr.shard g m hg' hu hm (by rw [hver, hcci]) (hids m hm) hmir
    have := hsize d hd
    refine ⟨fun h => (by rw [ht] at h; cases h), fun _ => ?_⟩
    omega
  · exact ⟨fun h => (by rw [ht] at h; cases h), fun h => (by rw [ht] at h; cases h)⟩
  · have hlen := mirror_length l cr.shard g m hg' hu hm (by rw [hver, hcci]) (hids m hm) hmir
    have := hsize d hd
    refine ⟨fun _ => ?_, fun h => (by rw [ht] at h; cases h)⟩
    omega

#print axioms repairJust_reqOK
end Drummer
