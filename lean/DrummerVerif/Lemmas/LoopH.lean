import DrummerVerif.Lemmas.LoopGlue
/-! M-LOOP: the reports the fleet produces are consistent with the loop's own membership history -/
namespace Drummer

/-- group-level well-formedness needed to read the history function -/
structure Loop.HistOK (l : Loop) : Prop where
  unique : ∀ g ∈ l.groups, g.VersionsUnique
  ids : ∀ g ∈ l.groups, ∀ m ∈ g.hist, (m.members.map (·.1)).Nodup
  shardsUnique : ∀ g ∈ l.groups, ∀ g' ∈ l.groups, g.shard = g'.shard → g = g'

theorem H_of_mem (l : Loop) (hok : l.HistOK) (g : Group) (hg : g ∈ l.groups) (m : Membership) (hm : m ∈ g.hist) :
    l.H g.shard m.ver = m.members := by
  unfold Loop.H
  have hfind : l.group? g.shard = some g := by
    unfold Loop.group?
    cases hf : l.groups.find? (·.shard == g.shard) with
    | none =>
      have := List.find?_eq_none.mp hf g hg
      simp at this
    | some g' =>
      have h1 := List.mem_of_find?_eq_some hf
      have h2 : g'.shard = g.shard := by simpa using List.find?_some hf
      rw [hok.shardsUnique g' h1 g hg h2]
  simp only [hfind]
  rw [find?_ver g (hok.unique g hg) m hm]

/-- every complete entry of a report built by `buildReport` is `Consistent` with `Loop.H` -/
theorem buildReport_consistent (l : Loop) (hok : l.HistOK) (h : Host) (count : Nat) :
    ∀ ci ∈ (l.buildReport h count).shardInfo, ¬ (ci.pending || ci.incomplete) = true → ci.Consistent l.H := by
  intro ci hci hcomplete
  unfold Loop.buildReport at hci
  simp only [List.mem_filterMap] at hci
  obtain ⟨sid, _, hsome⟩ := hci
  cases hr : h.run? sid with
  | none => simp [hr] at hsome
  | some r =>
    simp only [hr] at hsome
    by_cases hpend : r.applied < 0
    · simp only [hpend, if_true, Option.some.injEq] at hsome
      subst hsome
      simp at hcomplete
    · simp only [hpend, if_false] at hsome
      cases hg : l.group? sid with
      | none => simp [hg] at hsome
      | some g =>
        simp only [hg] at hsome
        cases hm : g.hist[r.applied.toNat]? with
        | none => simp [hm] at hsome
        | some m =>
          simp only [hm] at hsome
          obtain ⟨hgmem, hgs⟩ := group?_mem l sid g hg
          have hmmem : m ∈ g.hist := List.mem_of_getElem? hm
          have hH := H_of_mem l hok g hgmem m hmmem
          -- whichever branch produced a complete entry, it carries (sid, m.ver, m.members)
          have key : ∀ x : ShardInfo, x.shardId = sid → x.cci = m.ver → x.replicas = m.members → x.Consistent l.H := by
            intro x h1 h2 h3
            refine ⟨by rw [h3]; exact hok.ids g hgmem m hmmem, fun p => ?_⟩
            rw [h1, h2, h3, ← hgs, hH]
          cases hk : (l.db.image.find? sid).map (fun (c : Shard) => c.cci) with
          | none =>
            simp only [hk, Option.some.injEq] at hsome
            subst hsome
            exact key _ rfl rfl rfl
          | some k =>
            simp only [hk] at hsome
            by_cases hge : k ≥ m.ver
            · simp only [hge, if_true, Option.some.injEq] at hsome
              subst hsome
              simp at hcomplete
            · simp only [hge, if_false, Option.some.injEq] at hsome
              subst hsome
              exact key _ rfl rfl rfl

theorem H_setHost (l : Loop) (h : Host) : (l.setHost h).H = l.H := rfl
theorem H_setDb (l : Loop) (db : DB) : ({ l with db := db } : Loop).H = l.H := rfl

theorem reportView_image (d d1 : DB) (nhi : NodeHostInfo) (h : d.reportView nhi = .ok d1) :
    d.image.update { nhi with lastTick := d.tick } = .ok d1.image := by
  unfold DB.reportView at h
  cases hu : d.image.update { nhi with lastTick := d.tick } with
  | panic w => simp [hu] at h
  | ok image => simp only [hu] at h; cases h; rfl

theorem applyReport_image (d d' : DB) (nhi : NodeHostInfo) (n : Nat) (h : d.applyReport nhi = .ok (d', n)) :
    d.image.update { nhi with lastTick := d.tick } = .ok d'.image := by
  unfold DB.applyReport at h
  cases hv : d.reportView nhi with
  | panic w => simp [hv] at h
  | ok d1 =>
    simp only [hv] at h
    cases h
    have h2 : (d1.moveRequests nhi.raftAddress).1.image = d1.image := by unfold DB.moveRequests; split <;> rfl
    have h3 : ∀ x : DB, x.onUpdatedShardInfo.image = x.image := by intro x; unfold DB.onUpdatedShardInfo; split <;> rfl
    rw [h3, h2]
    exact reportView_image d d1 nhi hv

/-- closed-loop invariant J1 is preserved by every report event: Drummer's views keep mirroring the fleet's own
    membership history (C04 inside the loop) -/
theorem report_preserves_mirrors (l l' : Loop) (a : Addr) (replyLost : Bool) (n : Nat) (hok : l.HistOK)
    (hmir : ∀ c ∈ l.db.image.shards, c.Mirrors l.H) (h : l.report a replyLost = .ok (l', n)) :
    (∀ c ∈ l'.db.image.shards, c.Mirrors l'.H) ∧ l'.groups = l.groups := by
  unfold Loop.report at h
  cases hh : l.host? a with
  | none => simp [hh] at h
  | some hst =>
    simp only [hh] at h
    cases ha : l.db.applyReport (l.buildReport { hst with reportCount := hst.reportCount + 1 } (hst.reportCount + 1)) with
    | panic w => simp [ha] at h
    | ok p =>
      obtain ⟨db', k⟩ := p
      simp only [ha] at h
      cases h
      have himg := applyReport_image _ _ _ _ ha
      have hcons := buildReport_consistent l hok { hst with reportCount := hst.reportCount + 1 } (hst.reportCount + 1)
      have := update_mirrors l.H l.db.image db'.image _ hmir (by
        intro ci hci hp
        exact hcons ci (by simpa using hci) hp) himg
      exact ⟨this, rfl⟩

theorem find?_map_replace_ne (g : Group) (s : Nat) (hs : ¬ g.shard = s) : ∀ (gs : List Group),
    (gs.map (fun x => if (x.shard == g.shard) = true then g else x)).find? (·.shard == s) = gs.find? (·.shard == s) := by
  intro gs
  induction gs with
  | nil => rfl
  | cons x xs ih =>
    have hb : (g.shard == s) = false := by simpa using hs
    by_cases hx : x.shard = g.shard
    · have hxs : (x.shard == s) = false := by simpa [hx] using hs
      simp only [List.map_cons, hx, beq_self_eq_true, if_true, List.find?, hb, hxs]
      exact ih
    · have hbx : (x.shard == g.shard) = false := by simpa using hx
      simp only [List.map_cons, hbx, Bool.false_eq_true, if_false, List.find?]
      cases hxs : (x.shard == s) with
      | true => rfl
      | false => exact ih

theorem find?_map_replace_eq (g : Group) : ∀ (gs : List Group), gs.any (·.shard == g.shard) = true →
    (gs.map (fun x => if (x.shard == g.shard) = true then g else x)).find? (·.shard == g.shard) = some g := by
  intro gs
  induction gs with
  | nil => intro h; simp at h
  | cons x xs ih =>
    intro hany
    by_cases hx : x.shard = g.shard
    · simp [List.find?, hx]
    · have hbx : (x.shard == g.shard) = false := by simpa using hx
      have hany2 : xs.any (·.shard == g.shard) = true := by simpa [List.any_cons, hbx] using hany
      simp only [List.map_cons, hbx, Bool.false_eq_true, if_false, List.find?]
      exact ih hany2

theorem group?_setGroup (l : Loop) (g : Group) (s : Nat) :
    (l.setGroup g).group? s = if g.shard = s then some g else l.group? s := by
  unfold Loop.setGroup Loop.group?
  by_cases hany : l.groups.any (·.shard == g.shard) = true
  · simp only [hany, if_true]
    by_cases hs : g.shard = s
    · subst hs; simp only [if_true]; exact find?_map_replace_eq g l.groups hany
    · simp only [hs, if_false]; exact find?_map_replace_ne g s hs l.groups
  · simp only [hany, Bool.false_eq_true, if_false]
    have hnone : ∀ y ∈ l.groups, y.shard ≠ g.shard := by
      intro y hy hh
      exact hany (List.any_eq_true.mpr ⟨y, hy, by simp [hh]⟩)
    rw [List.find?_append]
    by_cases hs : g.shard = s
    · have : l.groups.find? (·.shard == s) = none := by
        apply List.find?_eq_none.mpr
        intro y hy; simpa using fun hh => hnone y hy (hh.trans hs.symm)
      simp [this, hs, List.find?]
    · have hb : (g.shard == s) = false := by simpa using hs
      simp [hs, List.find?, hb]

/-- appending a membership with a fresh, larger version does not disturb the history at any existing version -/
theorem find?_append_fresh (hist : List Membership) (new : Membership) (v : Nat) (hv : v < new.ver) :
    (hist ++ [new]).find? (·.ver == v) = hist.find? (·.ver == v) := by
  rw [List.find?_append]
  have : (new.ver == v) = false := by simpa using (Nat.ne_of_gt hv)
  cases hist.find? (·.ver == v) <;> simp [List.find?, this]

/-- executing a membership change only *adds* history: `Loop.H` is unchanged at every version that existed before -/
theorem execChange_H (l : Loop) (h : Host) (r : Request) (s v : Nat) (hv : v ≤ l.nextVer) :
    (l.execChange h r).H s v = l.H s v := by
  unfold Loop.execChange
  cases hg : l.group? r.shardId with
  | none => rfl
  | some g =>
    cases hid : r.members.head? with
    | none => rfl
    | some id =>
      simp only
      cases ha : l.changeApplicable h g r with
      | none => rfl
      | some rep =>
        simp only
        cases hm : changeMembers g.cur r id with
        | none => rfl
        | some p =>
          obtain ⟨ms, rm⟩ := p
          simp only
          rw [H_setHost]
          unfold Loop.H
          rw [group?_setGroup]
          have hgs : g.shard = r.shardId := (group?_mem l _ g hg).2
          by_cases hs : g.shard = s
          · simp only [hs, if_true]
            have hg' : l.group? s = some g := by rw [← hs, hgs]; exact hg
            have hg'' : ({ l with nextVer := l.nextVer + 1 } : Loop).group? s = some g := hg'
            simp only [hg']
            rw [find?_append_fresh g.hist _ v (by simp; omega)]
          · simp only [hs, if_false]
            rfl

#print axioms buildReport_consistent
#print axioms report_preserves_mirrors
#print axioms execChange_H
end Drummer
