import DrummerVerif.Model.Loop
/-! M-LOOP safety prototype: executing justified, fenced membership changes keeps every group well-formed -/
namespace Drummer

/-- well-formedness of one membership for a shard of defined size `n` -/
structure Membership.WF (n : Nat) (m : Membership) : Prop where
  ids : (m.members.map (·.1)).Nodup
  addrs : (m.members.map (·.2)).Nodup          -- no two members share a NodeHost
  lower : n ≤ m.members.length
  upper : m.members.length ≤ n + 1              -- at most one surplus member

/-- what the scheduler guarantees about an ADD / DELETE w.r.t. the membership at the version it carries -/
def ReqOK (g : Group) (n : Nat) (r : Request) : Prop :=
  ∀ m ∈ g.hist, m.ver = r.confChangeId →
    (r.type = .add → m.members.length ≤ n) ∧ (r.type = .delete → m.members.length > n)

def Group.WF (n : Nat) (g : Group) : Prop := ∀ m ∈ g.hist, m.WF n

theorem cur_mem (g : Group) (h : g.hist ≠ []) : g.cur ∈ g.hist := by
  unfold Group.cur
  cases hl : g.hist.getLast? with
  | none => simp [List.getLast?_eq_none_iff] at hl; exact absurd hl h
  | some m => simp; exact List.mem_of_getLast? hl

theorem filter_ne_length : ∀ (l : List (Nat × Addr)) (id : Nat), (l.map (·.1)).Nodup → ∀ p ∈ l, p.1 = id →
    (l.filter (·.1 != id)).length + 1 = l.length := by
  intro l id
  induction l with
  | nil => intro _ p hp; simp at hp
  | cons x xs ih =>
    intro hnd p hp he
    simp only [List.map_cons, List.nodup_cons] at hnd
    rcases List.mem_cons.mp hp with rfl | hm
    · have hnone : xs.filter (·.1 != id) = xs := by
        apply List.filter_eq_self.mpr
        intro y hy
        have : y.1 ≠ p.1 := fun hh => hnd.1 (hh ▸ List.mem_map_of_mem hy)
        simpa [he] using this
      have hb : (p.1 != id) = false := by simp [he]
      simp only [List.filter_cons, hb, hnone, List.length_cons]
      simp
    · have hx : x.1 ≠ id := fun hh => hnd.1 (by rw [hh, ← he]; exact List.mem_map_of_mem hm)
      have hb : (x.1 != id) = true := by simpa using hx
      have := ih hnd.2 p hm he
      simp only [List.filter_cons, hb, List.length_cons, if_true]
      omega

/-- the new membership computed by `exec1` for an applicable, justified change is well-formed -/
theorem newMembers_wf (n : Nat) (cur : Membership) (hwf : cur.WF n) (id : Nat) (na : Addr) :
    -- ADD
    (cur.members.length ≤ n → ¬ cur.members.any (·.1 == id) = true → ¬ cur.members.any (·.2 == na) = true →
      ∀ v rm, ({ ver := v, members := cur.members ++ [(id, na)], removed := rm } : Membership).WF n) ∧
    -- DELETE
    (cur.members.length > n → cur.members.any (·.1 == id) = true →
      ∀ v rm, ({ ver := v, members := cur.members.filter (·.1 != id), removed := rm } : Membership).WF n) := by
  constructor
  · intro hle hid haddr v rm
    have hid' : id ∉ cur.members.map (·.1) := by
      intro hm
      apply hid
      obtain ⟨p, hp, he⟩ := List.mem_map.mp hm
      exact List.any_eq_true.mpr ⟨p, hp, by simp [he]⟩
    have haddr' : na ∉ cur.members.map (·.2) := by
      intro hm
      apply haddr
      obtain ⟨p, hp, he⟩ := List.mem_map.mp hm
      exact List.any_eq_true.mpr ⟨p, hp, by simp [he]⟩
    refine ⟨?_, ?_, ?_, ?_⟩
    · simp only [List.map_append, List.map_cons, List.map_nil]
      exact List.nodup_append.mpr ⟨hwf.ids, by simp, by intro a ha b hb; simp at hb; subst hb; intro he; exact hid' (he ▸ ha)⟩
    · simp only [List.map_append, List.map_cons, List.map_nil]
      exact List.nodup_append.mpr ⟨hwf.addrs, by simp, by intro a ha b hb; simp at hb; subst hb; intro he; exact haddr' (he ▸ ha)⟩
    · simp; have := hwf.lower; omega
    · simp; omega
  · intro hgt hmem v rm
    obtain ⟨p, hp, he⟩ := List.any_eq_true.mp hmem
    have he' : p.1 = id := by simpa using he
    -- exactly one member has this id, so the filter removes exactly one element
    have hlen : (cur.members.filter (·.1 != id)).length + 1 = cur.members.length :=
      filter_ne_length cur.members id hwf.ids p hp he'
    refine ⟨?_, ?_, ?_, ?_⟩
    · exact hwf.ids.sublist (List.Sublist.map _ List.filter_sublist)
    · exact hwf.addrs.sublist (List.Sublist.map _ List.filter_sublist)
    · show n ≤ (cur.members.filter (·.1 != id)).length; omega
    · show (cur.members.filter (·.1 != id)).length ≤ n + 1; have := hwf.upper; omega

def Loop.GroupsWF (size : Nat → Nat) (l : Loop) : Prop :=
  ∀ g ∈ l.groups, g.hist ≠ [] ∧ g.WF (size g.shard)

theorem mem_setGroup (l : Loop) (g x : Group) (hx : x ∈ (l.setGroup g).groups) : x = g ∨ x ∈ l.groups := by
  unfold Loop.setGroup at hx
  split at hx
  · simp only [List.mem_map] at hx
    obtain ⟨y, hy, rfl⟩ := hx
    split
    · left; rfl
    · right; exact hy
  · simp only [List.mem_append, List.mem_singleton] at hx
    rcases hx with h | h
    · right; exact h
    · left; exact h

theorem setHost_groups (l : Loop) (h : Host) : (l.setHost h).groups = l.groups := rfl

theorem group?_mem (l : Loop) (s : Nat) (g : Group) (h : l.group? s = some g) : g ∈ l.groups ∧ g.shard = s := by
  unfold Loop.group? at h
  exact ⟨List.mem_of_find?_eq_some h, by simpa using List.find?_some h⟩

theorem changeApplicable_fenced (l : Loop) (h : Host) (g : Group) (r : Request) (rep : SimReplica)
    (ha : l.changeApplicable h g r = some rep) : r.confChangeId = g.cur.ver := by
  unfold Loop.changeApplicable at ha
  cases hr : h.run? r.shardId with
  | none => simp [hr] at ha
  | some rp =>
    simp only [hr] at ha
    by_cases h1 : (!(g.cur.members.any (·.1 == rp.id))) = true
    · simp [h1] at ha
    · simp only [h1] at ha
      by_cases h2 : (r.confChangeId != g.cur.ver || !l.quorumRunning r.shardId) = true
      · simp [h2] at ha
      · simp only [Bool.or_eq_true, not_or, bne_iff_ne, ne_eq, Decidable.not_not] at h2
        exact h2.1

theorem changeMembers_wf (n : Nat) (cur : Membership) (r : Request) (id : Nat) (ms : List (Nat × Addr)) (rm : List Nat)
    (hwf : cur.WF n) (hadd : r.type = .add → cur.members.length ≤ n) (hdel : r.type = .delete → cur.members.length > n)
    (htype : r.type = .add ∨ r.type = .delete) (hm : changeMembers cur r id = some (ms, rm)) (v : Nat) :
    ({ ver := v, members := ms, removed := rm } : Membership).WF n := by
  unfold changeMembers at hm
  by_cases ht : r.type = .add
  · have hb : (r.type == .add) = true := by simp [ht]
    simp only [hb, if_true] at hm
    cases hna : r.addressList.head? with
    | none => simp [hna] at hm
    | some na =>
      simp only [hna] at hm
      split at hm
      · cases hm
      · rename_i hrej
        simp only [Option.some.injEq, Prod.mk.injEq] at hm
        obtain ⟨rfl, rfl⟩ := hm
        simp only [Bool.or_eq_true, not_or] at hrej
        exact (newMembers_wf n cur hwf id na).1 (hadd ht) hrej.1.2 hrej.2 v _
  · have hb : (r.type == .add) = false := by simp [ht]
    have htd : r.type = .delete := by rcases htype with h | h; exact absurd h ht; exact h
    simp only [hb, Bool.false_eq_true, if_false] at hm
    split at hm
    · cases hm
    · rename_i hrej
      simp only [Option.some.injEq, Prod.mk.injEq] at hm
      obtain ⟨rfl, rfl⟩ := hm
      simp only [Bool.or_eq_true, not_or, Bool.not_eq_true', Bool.not_eq_false] at hrej
      exact (newMembers_wf n cur hwf id "").2 (hdel htd) (by simpa using hrej.1) v _

/-- C02 `size_bounds` / `no_colocation`, execution side: applying a fenced, justified ADD or DELETE keeps every
    membership of every group well-formed (distinct ids, distinct hosts, size ≤ |members| ≤ size + 1) -/
theorem execChange_wf (size : Nat → Nat) (l : Loop) (h : Host) (r : Request) (hwf : l.GroupsWF size)
    (hreq : ∀ g, l.group? r.shardId = some g → ReqOK g (size r.shardId) r)
    (htype : r.type = .add ∨ r.type = .delete) :
    (l.execChange h r).GroupsWF size := by
  unfold Loop.execChange
  cases hg : l.group? r.shardId with
  | none => simpa using hwf
  | some g =>
    cases hid : r.members.head? with
    | none => simpa using hwf
    | some id =>
      simp only
      cases ha : l.changeApplicable h g r with
      | none => simpa using hwf
      | some rep =>
        simp only
        cases hm : changeMembers g.cur r id with
        | none => simpa using hwf
        | some p =>
          obtain ⟨ms, rm⟩ := p
          simp only
          obtain ⟨hgmem, hgs⟩ := group?_mem l _ g hg
          obtain ⟨hne, hgwf⟩ := hwf g hgmem
          have hcurmem := cur_mem g hne
          have hcurwf : g.cur.WF (size r.shardId) := hgs ▸ hgwf g.cur hcurmem
          have hfence := changeApplicable_fenced l h g r rep ha
          have hok := hreq g hg g.cur hcurmem hfence.symm
          have hnew := changeMembers_wf (size r.shardId) g.cur r id ms rm hcurwf hok.1 hok.2 htype hm (l.nextVer + 1)
          intro x hx
          rw [setHost_groups] at hx
          rcases mem_setGroup _ _ x hx with rfl | hx'
          · refine ⟨by simp, ?_⟩
            intro m hmm
            simp only [List.mem_append, List.mem_singleton] at hmm
            rcases hmm with hmm | rfl
            · exact hgwf m hmm
            · exact hgs ▸ hnew
          · exact hwf x hx'

#print axioms execChange_wf
end Drummer
