import DrummerVerif.Lemmas.LoopSys
import DrummerVerif.Lemmas.LaunchF
/-! M-LOOP: every request of an accepted (repaired) launch plan is safe to execute -/
namespace Drummer

/-- what the launch clause needs from the shard definitions: distinct member ids and the declared size -/
def DefsOK (size : Nat → Nat) (cx : Ctx) : Prop := ∀ d ∈ cx.defs, d.members.Nodup ∧ d.members.length = size d.shardId

theorem launchAllF_mem (cx : Ctx) (rg : Regions) : ∀ (ds : List ShardDef) (draws : List Nat) (rs : List Request) (rest : List Nat),
    launchAllF cx rg ds draws = .ok rs rest → ∀ r ∈ rs, ∃ d ∈ ds, ∃ dr reqs rest', launchShardF cx rg d dr = .ok reqs rest' ∧ r ∈ reqs := by
  intro ds
  induction ds with
  | nil => intro draws rs rest h r hr; unfold launchAllF at h; cases h; simp at hr
  | cons d ds ih =>
    intro draws rs rest h r hr
    unfold launchAllF at h
    cases h1 : launchShardF cx rg d draws with
    | panic w => simp [h1] at h
    | error w => simp [h1] at h
    | ok reqs rest1 =>
      simp only [h1] at h
      cases h2 : launchAllF cx rg ds rest1 with
      | panic w => simp [h2] at h
      | error w => simp [h2] at h
      | ok rs2 dr2 =>
        simp only [h2] at h
        cases h
        rcases List.mem_append.mp hr with hr | hr
        · exact ⟨d, by simp, draws, reqs, rest1, h1, hr⟩
        · obtain ⟨d', hd', x⟩ := ih rest1 rs2 _ h2 r hr
          exact ⟨d', by simp [hd'], x⟩

theorem map_fst_zip_eq {α β : Type} : ∀ (a : List α) (b : List β), a.length = b.length → (a.zip b).map (·.1) = a
  | [], _, _ => by simp
  | x :: xs, [], h => by simp at h
  | x :: xs, y :: ys, h => by
    simp only [List.zip_cons_cons, List.map_cons, List.cons.injEq, true_and]
    exact map_fst_zip_eq xs ys (by simpa using h)

theorem map_snd_zip_eq {α β : Type} : ∀ (a : List α) (b : List β), a.length = b.length → (a.zip b).map (·.2) = b
  | [], [], _ => by simp
  | [], y :: ys, h => by simp at h
  | x :: xs, [], h => by simp at h
  | x :: xs, y :: ys, h => by
    simp only [List.zip_cons_cons, List.map_cons, List.cons.injEq, true_and]
    exact map_snd_zip_eq xs ys (by simpa using h)

/-- every request of an accepted launch plan founds (or joins) a well-formed first membership -/
theorem launchF_execOK (size : Nat → Nat) (l : Loop) (cx : Ctx) (draws rest : List Nat) (rs : List Request)
    (hd : DefsOK size cx) (h : launchF cx draws = .ok rs rest) : ∀ r ∈ rs, ExecOK size l r := by
  unfold launchF at h
  cases hrg : cx.regions with
  | none => simp [hrg] at h
  | some rg =>
    simp only [hrg] at h
    split at h
    · cases h
    · intro r hr
      obtain ⟨d, hdm, dr, reqs, rest', hs, hmem⟩ := launchAllF_mem cx rg cx.defs draws rs rest h r hr
      obtain ⟨hlen, _, haddr, hall⟩ := launchShardF_valid cx rg d dr reqs rest' hs
      obtain ⟨ht, _, _, hsid, hids, hal, _⟩ := hall r hmem
      obtain ⟨hnd, hsz⟩ := hd d hdm
      constructor
      · intro hx; rcases hx with hx | hx <;> (rw [ht] at hx; cases hx)
      · intro _ _ _
        right
        have hl : r.replicaIdList.length = r.addressList.length := by rw [hids, hal]; simp [hlen]
        refine ⟨?_, ?_, ?_, ?_⟩
        · show ((r.replicaIdList.zip r.addressList).map (·.1)).Nodup
          rw [map_fst_zip_eq _ _ hl, hids]; exact hnd
        · show ((r.replicaIdList.zip r.addressList).map (·.2)).Nodup
          rw [map_snd_zip_eq _ _ hl, hal]; exact haddr
        · show size r.shardId ≤ (r.replicaIdList.zip r.addressList).length
          rw [List.length_zip, ← hl, hids, hsid, hsz]; simp
        · show (r.replicaIdList.zip r.addressList).length ≤ size r.shardId + 1
          rw [List.length_zip, ← hl, hids, hsid, hsz]; simp

#print axioms launchF_execOK
end Drummer
