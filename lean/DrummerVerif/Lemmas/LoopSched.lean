import DrummerVerif.Lemmas.LoopExec
/-! M-LOOP: everything a maintenance round issues is safe to execute (`ExecOK`) -/
namespace Drummer

/-- how the scheduler context relates to the loop state it was computed from -/
structure CtxOf (size : Nat → Nat) (l : Loop) (cx : Ctx) : Prop where
  repairs : ∀ cr ∈ cx.repairs, cr.shard ∈ l.db.image.shards ∧
    cr.failed.length + cr.ok.length + cr.toStart.length = cr.shard.replicas.length ∧
    ∀ x ∈ cr.failed, x.shardId = cr.shard.shardId
  sizes : ∀ s d, cx.def? s = some d → d.members.length = size s

theorem maintain_execOK (size : Nat → Nat) (l : Loop) (cx : Ctx) (draws : List Nat) (rs : List Request) (rest : List Nat)
    (hcx : CtxOf size l cx) (hok : l.HistOK)
    (hmir : ∀ c ∈ l.db.image.shards, c.Mirrors l.H ∧ c.cci ≤ l.nextVer)
    (h : maintain cx draws = .ok rs rest) : ∀ r ∈ rs, ExecOK size l r := by
  unfold maintain at h
  cases hr : restore cx with
  | panic w => simp [hr] at h
  | ok rsr =>
    simp only [hr] at h
    cases hp : repair cx (rsr.map (·.shardId)) cx.repairs draws with
    | panic w => simp [hp] at h
    | error w => simp [hp] at h
    | ok rp dr =>
      simp only [hp] at h
      split at h
      · cases h
      · cases h
        intro r hmem
        rcases List.mem_append.mp hmem with hm | hm
        · rcases List.mem_append.mp hm with hm | hm
          · -- restore requests: CREATE with restore = true
            obtain ⟨cr, _, n, _, host, d, _, _, _, _, hreq, _⟩ := (restore_just cx rsr hr r hm).ex
            subst hreq
            exact ⟨fun ht => (by rcases ht with ht | ht <;> simp [createReq] at ht),
                   fun _ _ hres => (by simp [createReq] at hres)⟩
          · -- repair requests
            obtain ⟨hall, _⟩ := repair_spec cx _ cx.repairs draws rp rest (fun cr hcr => (hcx.repairs cr hcr).2.2) hp
            obtain ⟨_, cr, hcr, hj⟩ := hall r hm
            obtain ⟨hshard, hparts, _⟩ := hcx.repairs cr hcr
            obtain ⟨hmirror, hcci⟩ := hmir cr.shard hshard
            constructor
            · intro ht
              have hccid : r.confChangeId = cr.shard.cci := by
                rcases hj.just with ⟨_, hc, _⟩ | ⟨htc, _⟩ | ⟨_, hc, _⟩
                · exact hc
                · rcases ht with ht | ht <;> (rw [htc] at ht; cases ht)
                · exact hc
              refine ⟨hccid ▸ hcci, fun g hg => ?_⟩
              have hgmem := (group?_mem l _ g hg).1
              exact repairJust_reqOK l size cx cr r g hg (hok.unique g hgmem) (hok.ids g hgmem) hmirror hparts
                (fun d hd => by rw [hj.shard]; exact hcx.sizes _ d hd) hj
            · intro htc hjoin _
              rcases hj.just with ⟨ht, _⟩ | ⟨_, hj1, _⟩ | ⟨ht, _⟩
              · rw [ht] at htc; cases htc
              · rw [hj1] at hjoin; cases hjoin
              · rw [ht] at htc; cases htc
        · -- kill requests
          unfold killReqs at hm
          obtain ⟨k, _, rfl⟩ := List.mem_map.mp hm
          exact ⟨fun ht => (by rcases ht with ht | ht <;> cases ht), fun ht => (by cases ht)⟩

#print axioms maintain_execOK
end Drummer
