import DrummerVerif.Lemmas.LoopSched
/-! M-LOOP: the state invariant of C02 through the execution of received requests -/
namespace Drummer

/-- the part of the closed-loop invariant that concerns groups and views -/
structure StateInv (size : Nat → Nat) (l : Loop) : Prop where
  wf : l.GroupsWF size
  unique : ∀ g ∈ l.groups, g.VersionsUnique
  shardsUnique : ∀ g ∈ l.groups, ∀ g' ∈ l.groups, g.shard = g'.shard → g = g'
  vers : ∀ g ∈ l.groups, ∀ m ∈ g.hist, m.ver ≤ l.nextVer
  mir : ∀ c ∈ l.db.image.shards, c.Mirrors l.H ∧ c.cci ≤ l.nextVer

theorem StateInv.histOK {size : Nat → Nat} {l : Loop} (h : StateInv size l) : l.HistOK :=
  ⟨h.unique, fun g hg m hm => ((h.wf g hg).2 m hm).ids, h.shardsUnique⟩

/-- groups after `setGroup g` when a group of that shard exists: same shards, that one replaced -/
theorem mem_setGroup_replace (l : Loop) (g : Group) (hex : l.groups.any (·.shard == g.shard) = true) (x : Group)
    (hx : x ∈ (l.setGroup g).groups) : (x = g) ∨ (x ∈ l.groups ∧ x.shard ≠ g.shard) := by
  unfold Loop.setGroup at hx
  simp only [hex, if_true, List.mem_map] at hx
  obtain ⟨y, hy, rfl⟩ := hx
  by_cases hs : y.shard = g.shard
  · left; simp [hs]
  · right; have hb : (y.shard == g.shard) = false := by simpa using hs
    simp only [hb, Bool.false_eq_true, if_false]; exact ⟨hy, hs⟩

theorem setGroup_db (l : Loop) (g : Group) : (l.setGroup g).db = l.db := by
  unfold Loop.setGroup; split <;> rfl

theorem execChange_db (l : Loop) (h : Host) (r : Request) : (l.execChange h r).db = l.db := by
  unfold Loop.execChange
  cases hg : l.group? r.shardId with
  | none => rfl
  | some g =>
    cases hid : r.members.head? with
    | none => rfl
    | some id =>
      simp only
      cases ha : l.changeApplicable h g r with
      | none => rfl
      | some rep =>
        simp only
        cases hm : changeMembers g.cur r id with
        | none => rfl
        | some p =>
          obtain ⟨ms, rm⟩ := p
          simp only
          show ((({ l with nextVer := l.nextVer + 1 } : Loop).setGroup _).setHost _).db = l.db
          have : ∀ (x : Loop) (hh : Host), (x.setHost hh).db = x.db := fun _ _ => rfl
          rw [this, setGroup_db]

theorem execChange_inv (size : Nat → Nat) (l : Loop) (h : Host) (r : Request) (hinv : StateInv size l)
    (hr : ExecOK size l r) (htype : r.type = .add ∨ r.type = .delete) : StateInv size (l.execChange h r) := by
  have hwf' := execChange_wf size l h r hinv.wf (hr.1 htype).2 htype
  have hmir' : ∀ c ∈ (l.execChange h r).db.image.shards, c.Mirrors (l.execChange h r).H ∧ c.cci ≤ (l.execChange h r).nextVer := by
    have hdb : (l.execChange h r).db = l.db := execChange_db l h r
    intro c hc
    rw [hdb] at hc
    obtain ⟨hm, hle⟩ := hinv.mir c hc
    refine ⟨⟨hm.nodup, fun p => ?_⟩, Nat.le_trans hle (execChange_nextVer l h r)⟩
    rw [execChange_H l h r c.shardId c.cci hle]
    exact hm.same p
  -- the group-level facts: unfold once and treat the only case that changes groups
  unfold Loop.execChange at hwf' hmir' ⊢
  cases hg : l.group? r.shardId with
  | none => simp only [hg] at hwf' hmir' ⊢; exact hinv
  | some g =>
    cases hid : r.members.head? with
    | none => simp only [hg, hid] at hwf' hmir' ⊢; exact hinv
    | some id =>
      simp only [hg, hid] at hwf' hmir' ⊢
      cases ha : l.changeApplicable h g r with
      | none => simp only [ha] at hwf' hmir' ⊢; exact hinv
      | some rep =>
        simp only [ha] at hwf' hmir' ⊢
        cases hm : changeMembers g.cur r id with
        | none => simp only [hm] at hwf' hmir' ⊢; exact hinv
        | some p =>
          obtain ⟨ms, rm⟩ := p
          simp only [hm] at hwf' hmir' ⊢
          obtain ⟨hgmem, hgs⟩ := group?_mem l _ g hg
          have hex : l.groups.any (·.shard == g.shard) = true := List.any_eq_true.mpr ⟨g, hgmem, by simp⟩
          let g' : Group := { g with hist := g.hist ++ [{ ver := l.nextVer + 1, members := ms, removed := rm }] }
          have hmemg : ∀ x, x ∈ ((({ l with nextVer := l.nextVer + 1 } : Loop).setGroup g').setHost
              ((h.setRun { rep with applied := (g'.hist.length : Int) - 1 }).dataPut r.shardId rep.id ((g'.hist.length : Int) - 1))).groups →
              x = g' ∨ (x ∈ l.groups ∧ x.shard ≠ g.shard) := by
            intro x hx
            exact mem_setGroup_replace ({ l with nextVer := l.nextVer + 1 } : Loop) g' hex x hx
          refine ⟨hwf', ?_, ?_, ?_, hmir'⟩
          · -- versions stay unique: the new one is larger than all old ones
            intro x hx
            rcases hmemg x hx with rfl | ⟨hxm, _⟩
            · intro m1 h1 m2 h2 hv
              simp only [g', List.mem_append, List.mem_singleton] at h1 h2
              rcases h1 with h1 | rfl <;> rcases h2 with h2 | rfl
              · exact hinv.unique g hgmem m1 h1 m2 h2 hv
              · have := hinv.vers g hgmem m1 h1; simp at hv; omega
              · have := hinv.vers g hgmem m2 h2; simp at hv; omega
              · rfl
            · exact hinv.unique x hxm
          · intro x hx y hy hxy
            rcases hmemg x hx with rfl | ⟨hxm, hxs⟩ <;> rcases hmemg y hy with rfl | ⟨hym, hys⟩
            · rfl
            · exact absurd hxy.symm hys
            · exact absurd hxy hxs
            · exact hinv.shardsUnique x hxm y hym hxy
          · intro x hx m hmm
            have hnv : ((({ l with nextVer := l.nextVer + 1 } : Loop).setGroup g').setHost
              ((h.setRun { rep with applied := (g'.hist.length : Int) - 1 }).dataPut r.shardId rep.id ((g'.hist.length : Int) - 1))).nextVer = l.nextVer + 1 := by
              have : ∀ (x : Loop) (hh : Host), (x.setHost hh).nextVer = x.nextVer := fun _ _ => rfl
              rw [this, setGroup_nextVer]
            rw [hnv]
            rcases hmemg x hx with rfl | ⟨hxm, _⟩
            · simp only [g', List.mem_append, List.mem_singleton] at hmm
              rcases hmm with hmm | rfl
              · have := hinv.vers g hgmem m hmm; omega
              · simp
            · have := hinv.vers x hxm m hmm; omega

#print axioms execChange_inv
end Drummer
