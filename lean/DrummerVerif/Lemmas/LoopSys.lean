import DrummerVerif.Lemmas.LoopStep
/-! M-LOOP: the closed-loop invariant of C02 through every kind of event -/
namespace Drummer

/-! ### version bound of the views through a report -/

theorem updateNodeTick_inv (Q : Shard → Prop) (hmap : ∀ (c : Shard) (f : Replica → Replica), (∀ r, (f r).shardId = r.shardId) → Q c →
      Q { c with replicas := c.replicas.map f })
    (nhi : NodeHostInfo) : ∀ (mc : MultiShard),
    (∀ c ∈ mc.shards, Q c) → ∀ c ∈ (updateNodeTick mc nhi).shards, Q c := by
  unfold updateNodeTick
  induction nhi.shardInfo with
  | nil => intro mc h; exact h
  | cons ci rest ih =>
    intro mc h
    simp only [List.foldl_cons]
    apply ih
    cases hf : mc.find? ci.shardId with
    | none => simpa using h
    | some ec =>
      simp only
      split
      · intro c hc
        rcases (mem_put _ _ _).mp hc with rfl | ⟨hm, _⟩
        · exact hmap ec _ (fun r => by split <;> rfl) (h ec (find?_mem _ _ _ hf).1)
        · exact h c hm
      · exact h

theorem syncLeaderInfo_inv (Q : Shard → Prop) (hmap : ∀ (c : Shard) (f : Replica → Replica), (∀ r, (f r).shardId = r.shardId) → Q c →
      Q { c with replicas := c.replicas.map f })
    (nhi : NodeHostInfo) : ∀ (mc : MultiShard),
    (∀ c ∈ mc.shards, Q c) → ∀ c ∈ (syncLeaderInfo mc nhi).shards, Q c := by
  unfold syncLeaderInfo
  induction nhi.shardInfo with
  | nil => intro mc h; exact h
  | cons ci rest ih =>
    intro mc h
    simp only [List.foldl_cons]
    apply ih
    cases hf : mc.find? ci.shardId with
    | none => simpa using h
    | some ec =>
      simp only
      split
      · exact h
      · split
        · exact h
        · split
          · intro c hc
            rcases (mem_put _ _ _).mp hc with rfl | ⟨hm, _⟩
            · exact hmap ec _ (fun r => by split <;> rfl) (h ec (find?_mem _ _ _ hf).1)
            · exact h c hm
          · split
            · intro c hc
              rcases (mem_put _ _ _).mp hc with rfl | ⟨hm, _⟩
              · exact hmap ec _ (fun r => rfl) (h ec (find?_mem _ _ _ hf).1)
              · exact h c hm
            · exact h

theorem sync_cci_le (c c' : Shard) (ci : ShardInfo) (t B : Nat) (rej : Bool) (hc : c.cci ≤ B) (hi : ci.cci ≤ B)
    (hs : c.sync ci t = .ok (rej, c')) : c'.cci ≤ B := by
  unfold Shard.sync at hs
  by_cases h1 : c.cci > ci.cci
  · simp only [h1, if_true] at hs; cases hs; exact hc
  · simp only [h1, if_false] at hs
    split at hs
    · cases hs
    · split at hs
      · cases hs
      · split at hs
        · cases hs
        · split at hs
          · cases hs
          · cases hs; exact hi

/-- no view ever carries a version beyond the bound that all reported versions respect -/
theorem update_cci_le (B : Nat) (mc mc' : MultiShard) (nhi : NodeHostInfo)
    (hinv : ∀ c ∈ mc.shards, c.cci ≤ B) (hrep : ∀ ci ∈ nhi.shardInfo, ci.cci ≤ B)
    (h : mc.update nhi = .ok mc') : ∀ c ∈ mc'.shards, c.cci ≤ B := by
  unfold MultiShard.update at h
  cases hl : doUpdateLoop nhi.lastTick mc nhi.shardInfo [] with
  | panic w => simp [hl, bind] at h
  | ok p =>
    obtain ⟨mc1, toKill⟩ := p
    simp only [hl, bind, pure] at h
    cases h
    have h1 : ∀ c ∈ mc1.shards, c.cci ≤ B :=
      doUpdateLoop_inv (fun c => c.cci ≤ B) nhi.lastTick nhi.shardInfo mc mc1 [] toKill
        (fun ci hci _ => hrep ci hci)
        (fun ci hci _ c rej c' _ hq hs => sync_cci_le c c' ci _ B rej hq (hrep ci hci) hs)
        hinv hl
    apply syncLeaderInfo_inv (fun c => c.cci ≤ B) (fun _ _ _ h => h)
    intro c hc
    exact updateNodeTick_inv (fun c => c.cci ≤ B) (fun _ _ _ h => h) nhi mc1 h1 c hc

/-! ### every replica of a view carries the view's shard id -/

def Shard.IdsOK (c : Shard) : Prop := ∀ r ∈ c.replicas, r.shardId = c.shardId

theorem getShard_idsOK (ci : ShardInfo) (t : Nat) : (getShard ci t).IdsOK := by
  intro r hr
  unfold getShard at hr
  simp only [List.mem_map] at hr
  obtain ⟨p, _, rfl⟩ := hr
  rfl

theorem sync_idsOK (c c' : Shard) (ci : ShardInfo) (t : Nat) (rej : Bool) (hc : c.IdsOK) (hid : c.shardId = ci.shardId)
    (hs : c.sync ci t = .ok (rej, c')) : c'.IdsOK := by
  unfold Shard.sync at hs
  by_cases h1 : c.cci > ci.cci
  · simp only [h1, if_true] at hs; cases hs; exact hc
  · simp only [h1, if_false] at hs
    split at hs
    · cases hs
    · split at hs
      · cases hs
      · split at hs
        · cases hs
        · split at hs
          · cases hs
          · cases hs
            intro r hr
            simp only [List.mem_append, List.mem_filter, List.mem_map] at hr
            rcases hr with ⟨hr, _⟩ | ⟨p, _, rfl⟩
            · exact hc r hr
            · exact hid.symm

theorem update_idsOK (mc mc' : MultiShard) (nhi : NodeHostInfo) (hinv : ∀ c ∈ mc.shards, c.IdsOK)
    (h : mc.update nhi = .ok mc') : ∀ c ∈ mc'.shards, c.IdsOK := by
  unfold MultiShard.update at h
  cases hl : doUpdateLoop nhi.lastTick mc nhi.shardInfo [] with
  | panic w => simp [hl, bind] at h
  | ok p =>
    obtain ⟨mc1, toKill⟩ := p
    simp only [hl, bind, pure] at h
    cases h
    have hmap : ∀ (c : Shard) (f : Replica → Replica), (∀ r, (f r).shardId = r.shardId) → c.IdsOK →
        Shard.IdsOK { c with replicas := c.replicas.map f } := by
      intro c f hf hc r hr
      simp only [List.mem_map] at hr
      obtain ⟨x, hx, rfl⟩ := hr
      rw [hf x]; exact hc x hx
    have h1 : ∀ c ∈ mc1.shards, c.IdsOK :=
      doUpdateLoop_inv Shard.IdsOK nhi.lastTick nhi.shardInfo mc mc1 [] toKill
        (fun ci _ _ => getShard_idsOK ci _)
        (fun ci _ _ c rej c' hid hq hs => sync_idsOK c c' ci _ rej hq hid hs)
        hinv hl
    apply syncLeaderInfo_inv Shard.IdsOK hmap
    intro c hc
    exact updateNodeTick_inv Shard.IdsOK hmap nhi mc1 h1 c hc

/-- every version a host reports is one that the fleet has produced -/
theorem buildReport_cci_le (l : Loop) (hv : ∀ g ∈ l.groups, ∀ m ∈ g.hist, m.ver ≤ l.nextVer) (h : Host) (count : Nat) :
    ∀ ci ∈ (l.buildReport h count).shardInfo, ci.cci ≤ l.nextVer := by
  intro ci hci
  unfold Loop.buildReport at hci
  simp only [List.mem_filterMap] at hci
  obtain ⟨sid, _, hsome⟩ := hci
  cases hr : h.run? sid with
  | none => simp [hr] at hsome
  | some r =>
    simp only [hr] at hsome
    by_cases hpend : r.applied < 0
    · simp only [hpend, if_true, Option.some.injEq] at hsome
      subst hsome
      exact Nat.zero_le _
    · simp only [hpend, if_false] at hsome
      cases hg : l.group? sid with
      | none => simp [hg] at hsome
      | some g =>
        simp only [hg] at hsome
        cases hm : g.hist[r.applied.toNat]? with
        | none => simp [hm] at hsome
        | some m =>
          simp only [hm] at hsome
          obtain ⟨hgmem, _⟩ := group?_mem l sid g hg
          have hle := hv g hgmem m (List.mem_of_getElem? hm)
          cases hk : (l.db.image.find? sid).map (fun (c : Shard) => c.cci) with
          | none =>
            simp only [hk, Option.some.injEq] at hsome
            subst hsome; exact hle
          | some k =>
            simp only [hk] at hsome
            by_cases hge : k ≥ m.ver
            · simp only [hge, if_true, Option.some.injEq] at hsome
              subst hsome; exact hle
            · simp only [hge, if_false, Option.some.injEq] at hsome
              subst hsome; exact hle

/-! ### state invariant through events that leave the groups alone -/

theorem H_of_groups_eq (l l' : Loop) (hg : l'.groups = l.groups) : l'.H = l.H := by
  funext s v; unfold Loop.H Loop.group?; rw [hg]

theorem stateInv_of_same (size : Nat → Nat) (l l' : Loop) (hg : l'.groups = l.groups) (hn : l'.nextVer = l.nextVer)
    (hmir : ∀ c ∈ l'.db.image.shards, c.Mirrors l.H ∧ c.cci ≤ l.nextVer) (h : StateInv size l) : StateInv size l' := by
  refine ⟨groupsWF_of_groups_eq size l l' hg h.wf, ?_, ?_, ?_, ?_⟩
  · rw [hg]; exact h.unique
  · rw [hg]; exact h.shardsUnique
  · rw [hg, hn]; exact h.vers
  · rw [H_of_groups_eq l l' hg, hn]; exact hmir

theorem setHost_nextVer (l : Loop) (h : Host) : (l.setHost h).nextVer = l.nextVer := rfl
theorem setHost_db (l : Loop) (h : Host) : (l.setHost h).db = l.db := rfl

theorem mem_setHost (l : Loop) (h x : Host) (hx : x ∈ (l.setHost h).hosts) : x = h ∨ x ∈ l.hosts := by
  unfold Loop.setHost at hx
  simp only [List.mem_map] at hx
  obtain ⟨y, hy, rfl⟩ := hx
  split
  · left; rfl
  · right; exact hy

theorem host?_mem (l : Loop) (a : Addr) (h : Host) (hh : l.host? a = some h) : h ∈ l.hosts := by
  unfold Loop.host? at hh; exact List.mem_of_find?_eq_some hh

/-- the state invariant through a report (J1 + version bound) -/
theorem report_stateInv (size : Nat → Nat) (l l' : Loop) (a : Addr) (replyLost : Bool) (n : Nat) (hinv : StateInv size l)
    (h : l.report a replyLost = .ok (l', n)) : StateInv size l' ∧ l'.groups = l.groups ∧ l'.nextVer = l.nextVer := by
  have hm := report_preserves_mirrors l l' a replyLost n hinv.histOK (fun c hc => (hinv.mir c hc).1) h
  unfold Loop.report at h
  cases hh : l.host? a with
  | none => simp [hh] at h
  | some hst =>
    simp only [hh] at h
    cases ha : l.db.applyReport (l.buildReport { hst with reportCount := hst.reportCount + 1 } (hst.reportCount + 1)) with
    | panic w => simp [ha] at h
    | ok p =>
      obtain ⟨db', k⟩ := p
      simp only [ha] at h
      cases h
      have himg := applyReport_image _ _ _ _ ha
      have hb := update_cci_le l.nextVer l.db.image db'.image _ (fun c hc => (hinv.mir c hc).2)
        (fun ci hci => buildReport_cci_le l hinv.vers { hst with reportCount := hst.reportCount + 1 } (hst.reportCount + 1) ci
          (by simpa using hci)) himg
      refine ⟨stateInv_of_same size l _ rfl rfl (fun c hc => ⟨?_, hb c hc⟩) hinv, rfl, rfl⟩
      have := hm.1 c hc
      rw [H_of_groups_eq l _ hm.2] at this
      exact this

#print axioms report_stateInv

/-! ### executing received requests -/

/-- every host of `l'` carries the queue of some host of `l` -/
def HostsFrom (l l' : Loop) : Prop := ∀ x ∈ l'.hosts, ∃ y ∈ l.hosts, x.queue = y.queue

theorem hostsFrom_refl (l : Loop) : HostsFrom l l := fun x hx => ⟨x, hx, rfl⟩

theorem setGroup_hosts (l : Loop) (g : Group) : (l.setGroup g).hosts = l.hosts := by
  unfold Loop.setGroup; split <;> rfl

theorem hostsFrom_setHost (l X : Loop) (h h' : Host) (hX : X.hosts = l.hosts) (hh : h ∈ l.hosts)
    (hq : h'.queue = h.queue) : HostsFrom l (X.setHost h') := by
  intro x hx
  rcases mem_setHost X h' x hx with rfl | hm
  · exact ⟨h, hh, hq⟩
  · exact ⟨x, hX ▸ hm, rfl⟩

theorem execChange_hosts (l : Loop) (h : Host) (r : Request) (hh : h ∈ l.hosts) : HostsFrom l (l.execChange h r) := by
  unfold Loop.execChange
  cases hg : l.group? r.shardId with
  | none => exact hostsFrom_refl l
  | some g =>
    cases hid : r.members.head? with
    | none => exact hostsFrom_refl l
    | some id =>
      simp only
      cases ha : l.changeApplicable h g r with
      | none => exact hostsFrom_refl l
      | some rep =>
        simp only
        cases hm : changeMembers g.cur r id with
        | none => exact hostsFrom_refl l
        | some p =>
          obtain ⟨ms, rm⟩ := p
          simp only
          exact hostsFrom_setHost l _ h _ (setGroup_hosts _ _) hh rfl

theorem execCreate_hosts (l : Loop) (h : Host) (r : Request) (hh : h ∈ l.hosts) : HostsFrom l (l.execCreate h r) := by
  unfold Loop.execCreate
  simp only
  split
  · exact hostsFrom_refl l
  · split
    · split
      · exact hostsFrom_refl l
      · exact hostsFrom_setHost l l h _ rfl hh rfl
    · split
      · exact hostsFrom_setHost l l h _ rfl hh rfl
      · split
        · exact hostsFrom_refl l
        · split
          · exact hostsFrom_setHost l l h _ rfl hh rfl
          · exact hostsFrom_setHost l _ h _ (setGroup_hosts _ _) hh rfl

theorem execKill_hosts (l : Loop) (h : Host) (r : Request) (hh : h ∈ l.hosts) : HostsFrom l (l.execKill h r) := by
  unfold Loop.execKill
  split
  · split
    · exact hostsFrom_setHost l l h _ rfl hh rfl
    · exact hostsFrom_refl l
  · exact hostsFrom_refl l

theorem execCreate_db (l : Loop) (h : Host) (r : Request) : (l.execCreate h r).db = l.db := by
  unfold Loop.execCreate
  simp only
  split
  · rfl
  · split
    · split <;> rfl
    · split
      · rfl
      · split
        · rfl
        · split
          · rfl
          · show (({ l with nextVer := l.nextVer + 1 } : Loop).setGroup _).db = l.db
            rw [setGroup_db]

theorem execKill_db (l : Loop) (h : Host) (r : Request) : (l.execKill h r).db = l.db := by
  unfold Loop.execKill
  split
  · split <;> rfl
  · rfl

theorem founded_H (l l' : Loop) (r : Request) (hf : Founded l l' r) (s v : Nat) (hv : v ≤ l.nextVer) :
    l'.H s v = l.H s v := by
  unfold Loop.H
  rw [group?_founded l l' r hf]
  by_cases hs : s = r.shardId
  · subst hs
    have hne : ¬ (l.nextVer + 1 = v) := by omega
    simp [hf.none, freshGroup, hne]
  · simp only [hs, if_false]

theorem founded_stateInv (size : Nat → Nat) (l l' : Loop) (r : Request) (hf : Founded l l' r) (hl : LaunchOK size r)
    (hdb : l'.db = l.db) (hinv : StateInv size l) : StateInv size l' := by
  have hnot : ∀ g ∈ l.groups, g.shard ≠ r.shardId := by
    intro g hg hs
    have := hf.none; unfold Loop.group? at this
    have := List.find?_eq_none.mp this g hg
    simp [hs] at this
  refine ⟨founded_wf size l l' r hf hl hinv.wf, ?_, ?_, ?_, ?_⟩
  · intro g hg
    rw [hf.groups] at hg
    rcases List.mem_append.mp hg with hg | hg
    · exact hinv.unique g hg
    · simp only [List.mem_singleton] at hg; subst hg
      intro m hm m' hm' _
      simp only [freshGroup, List.mem_singleton] at hm hm'
      rw [hm, hm']
  · intro g hg g' hg' hs
    rw [hf.groups] at hg hg'
    rcases List.mem_append.mp hg with hg | hg <;> rcases List.mem_append.mp hg' with hg' | hg'
    · exact hinv.shardsUnique g hg g' hg' hs
    · simp only [List.mem_singleton] at hg'; subst hg'
      exact absurd hs (hnot g hg)
    · simp only [List.mem_singleton] at hg; subst hg
      exact absurd hs.symm (hnot g' hg')
    · simp only [List.mem_singleton] at hg hg'; rw [hg, hg']
  · intro g hg m hm
    rw [hf.groups] at hg
    rw [hf.nextVer]
    rcases List.mem_append.mp hg with hg | hg
    · have := hinv.vers g hg m hm; omega
    · simp only [List.mem_singleton] at hg; subst hg
      simp only [freshGroup, List.mem_singleton] at hm; subst hm
      exact Nat.le_refl _
  · rw [hdb, hf.nextVer]
    intro c hc
    obtain ⟨hm, hle⟩ := hinv.mir c hc
    refine ⟨⟨hm.nodup, fun p => ?_⟩, by omega⟩
    rw [founded_H l l' r hf c.shardId c.cci hle]
    exact hm.same p

/-- one received request of any kind, executed on any host: the state invariant survives, requests that were
    safe to execute stay so, and no queue changes -/
theorem exec1_inv (size : Nat → Nat) (l : Loop) (a : Addr) (r : Request) (hinv : StateInv size l) (hr : ExecOK size l r) :
    StateInv size (l.exec1 a r) ∧ (∀ r', ExecOK size l r' → ExecOK size (l.exec1 a r) r') ∧ HostsFrom l (l.exec1 a r) ∧
    (l.exec1 a r).db = l.db := by
  have hstable := (exec1_step size l a r hinv.wf hr).2
  refine ⟨?_, hstable, ?_, ?_⟩
  · unfold Loop.exec1
    cases hh : l.host? a with
    | none => exact hinv
    | some h =>
      simp only
      cases ht : r.type with
      | create =>
        simp only
        rcases execCreate_cases l h r with ⟨e1, e2⟩ | hf
        · exact stateInv_of_same size l _ e1 e2 (by rw [execCreate_db]; exact hinv.mir) hinv
        · rcases hr.2 ht hf.boot.1 hf.boot.2 with hex | hl
          · rw [hf.none] at hex; cases hex
          · exact founded_stateInv size l _ r hf hl (execCreate_db l h r) hinv
      | kill =>
        simp only
        obtain ⟨e1, e2⟩ := execKill_groups l h r
        exact stateInv_of_same size l _ e1 e2 (by rw [execKill_db]; exact hinv.mir) hinv
      | add => simp only; exact execChange_inv size l h r hinv hr (Or.inl ht)
      | delete => simp only; exact execChange_inv size l h r hinv hr (Or.inr ht)
  · unfold Loop.exec1
    cases hh : l.host? a with
    | none => exact hostsFrom_refl l
    | some h =>
      simp only
      have hmem := host?_mem l a h hh
      cases ht : r.type with
      | create => exact execCreate_hosts l h r hmem
      | kill => exact execKill_hosts l h r hmem
      | add => exact execChange_hosts l h r hmem
      | delete => exact execChange_hosts l h r hmem
  · unfold Loop.exec1
    cases hh : l.host? a with
    | none => rfl
    | some h =>
      simp only
      cases ht : r.type with
      | create => exact execCreate_db l h r
      | kill => exact execKill_db l h r
      | add => exact execChange_db l h r
      | delete => exact execChange_db l h r

#print axioms exec1_inv

theorem execList_inv (size : Nat → Nat) (a : Addr) : ∀ (q : List Request) (l : Loop), StateInv size l →
    (∀ r ∈ q, ExecOK size l r) →
    StateInv size (q.foldl (fun l r => l.exec1 a r) l) ∧
    (∀ r', ExecOK size l r' → ExecOK size (q.foldl (fun l r => l.exec1 a r) l) r') ∧
    HostsFrom l (q.foldl (fun l r => l.exec1 a r) l) ∧ (q.foldl (fun l r => l.exec1 a r) l).db = l.db := by
  intro q
  induction q with
  | nil => intro l hinv _; exact ⟨hinv, fun _ h => h, hostsFrom_refl l, rfl⟩
  | cons r rest ih =>
    intro l hinv hq
    simp only [List.foldl_cons]
    obtain ⟨h1, h2, h3, h4⟩ := exec1_inv size l a r hinv (hq r (by simp))
    obtain ⟨i1, i2, i3, i4⟩ := ih (l.exec1 a r) h1 (fun r' hr' => h2 r' (hq r' (by simp [hr'])))
    refine ⟨i1, fun r' hr' => i2 r' (h2 r' hr'), ?_, by rw [i4, h4]⟩
    intro x hx
    obtain ⟨y, hy, e1⟩ := i3 x hx
    obtain ⟨z, hz, e2⟩ := h3 y hy
    exact ⟨z, hz, e1.trans e2⟩

/-! ### mailboxes -/

def MboxAll (P : Request → Prop) (m : List (Addr × List Request)) : Prop := ∀ p ∈ m, ∀ r ∈ p.2, P r

theorem mboxAll_amDel (P : Request → Prop) (m : List (Addr × List Request)) (a : Addr) (h : MboxAll P m) :
    MboxAll P (amDel m a) := fun p hp => h p (List.mem_filter.mp hp).1

theorem mboxAll_amPut (P : Request → Prop) (m : List (Addr × List Request)) (a : Addr) (rs : List Request)
    (h : MboxAll P m) (hrs : ∀ r ∈ rs, P r) : MboxAll P (amPut m a rs) := by
  intro p hp
  unfold amPut at hp
  rcases List.mem_cons.mp hp with rfl | hm
  · exact hrs
  · exact mboxAll_amDel P m a h p hm

theorem mboxAll_amGet (P : Request → Prop) (m : List (Addr × List Request)) (a : Addr) (rs : List Request)
    (h : MboxAll P m) (hg : amGet m a = some rs) : ∀ r ∈ rs, P r := by
  unfold amGet at hg
  cases hf : m.find? (·.1 == a) with
  | none => simp [hf] at hg
  | some p =>
    simp only [hf, Option.map_some, Option.some.injEq] at hg
    subst hg
    exact h p (List.mem_of_find?_eq_some hf)

theorem mboxAll_groupSteps (P : Request → Prop) : ∀ (rs : List Request) (m : List (Addr × List Request)),
    MboxAll P m → (∀ r ∈ rs, P r) → MboxAll P (rs.foldl groupStep m) := by
  intro rs
  induction rs with
  | nil => intro m h _; exact h
  | cons r rest ih =>
    intro m h hrs
    simp only [List.foldl_cons]
    apply ih _ _ (fun x hx => hrs x (by simp [hx]))
    unfold groupStep
    apply mboxAll_amPut P m _ _ h
    intro x hx
    rcases List.mem_append.mp hx with hx | hx
    · cases hg : amGet m r.raftAddress with
      | none => simp [hg] at hx
      | some old => simp only [hg, Option.getD_some] at hx; exact mboxAll_amGet P m _ old h hg x hx
    · simp only [List.mem_singleton] at hx; subst hx; exact hrs _ (by simp)

theorem mboxAll_puts (P : Request → Prop) : ∀ (g m : List (Addr × List Request)),
    MboxAll P g → MboxAll P m → MboxAll P (g.foldl (fun m (p : Addr × List Request) => amPut m p.1 p.2) m) := by
  intro g
  induction g with
  | nil => intro m _ h; exact h
  | cons p rest ih =>
    intro m hg hm
    simp only [List.foldl_cons]
    exact ih _ (fun x hx => hg x (by simp [hx])) (mboxAll_amPut P m _ _ hm (hg p (by simp)))

theorem mergeRequests_mbox (P : Request → Prop) (d : DB) (rs : List Request) (h : MboxAll P d.requests)
    (hrs : ∀ r ∈ rs, P r) : MboxAll P (d.mergeRequests rs).requests := by
  unfold DB.mergeRequests
  exact mboxAll_puts P _ _ (mboxAll_groupSteps P rs [] (fun _ hp => by simp at hp) hrs) h

/-- what a scheduled batch changes in the replicated state that the loop invariant depends on -/
theorem applyRequests_frame (P : Request → Prop) (d d' : DB) (rs : List Request) (n : Nat)
    (h : d.applyRequests rs = .ok (d', n)) (hreq : MboxAll P d.requests) (hrs : ∀ r ∈ rs, P r) :
    d'.image = d.image ∧ d'.outgoing = d.outgoing ∧ MboxAll P d'.requests := by
  unfold DB.applyRequests at h
  cases hb : isLaunchBatch rs with
  | panic w => simp [hb] at h
  | ok launch =>
    simp only [hb] at h
    split at h
    · cases h; exact ⟨rfl, rfl, hreq⟩
    · split at h
      · cases hm : (d.mergeRequests rs).markLaunched with
        | panic w => simp [hm] at h
        | ok d2 =>
          simp only [hm] at h
          cases h
          unfold DB.markLaunched at hm
          cases hk : (d.mergeRequests rs).applyKV launchedRec with
          | panic w => simp [hk] at hm
          | ok q =>
            obtain ⟨d3, code⟩ := q
            simp only [hk] at hm
            split at hm
            · cases hm
            · cases hm
              have hf : d3.image = (d.mergeRequests rs).image ∧ d3.outgoing = (d.mergeRequests rs).outgoing ∧
                  d3.requests = (d.mergeRequests rs).requests := by
                unfold DB.applyKV at hk
                split at hk
                · cases hk
                · split at hk
                  · cases hk; exact ⟨rfl, rfl, rfl⟩
                  · split at hk
                    · cases hk; exact ⟨rfl, rfl, rfl⟩
                    · split at hk <;> (cases hk; exact ⟨rfl, rfl, rfl⟩)
              refine ⟨hf.1, hf.2.1, ?_⟩
              show MboxAll P d3.requests
              rw [hf.2.2]; exact mergeRequests_mbox P d rs hreq hrs
      · cases h; exact ⟨rfl, rfl, mergeRequests_mbox P d rs hreq hrs⟩

/-- what a report changes in the mailboxes -/
theorem applyReport_mbox (P : Request → Prop) (d d' : DB) (nhi : NodeHostInfo) (n : Nat)
    (h : d.applyReport nhi = .ok (d', n)) (hreq : MboxAll P d.requests) (hout : MboxAll P d.outgoing) :
    MboxAll P d'.requests ∧ MboxAll P d'.outgoing := by
  unfold DB.applyReport at h
  cases hv : d.reportView nhi with
  | panic w => simp [hv] at h
  | ok d1 =>
    simp only [hv] at h
    cases h
    have h1 : d1.requests = d.requests ∧ d1.outgoing = d.outgoing := by
      unfold DB.reportView at hv
      cases hu : d.image.update { nhi with lastTick := d.tick } with
      | panic w => simp [hu] at hv
      | ok image => simp only [hu] at hv; cases hv; exact ⟨rfl, rfl⟩
    have h3 : ∀ x : DB, x.onUpdatedShardInfo.requests = x.requests ∧ x.onUpdatedShardInfo.outgoing = x.outgoing := by
      intro x; unfold DB.onUpdatedShardInfo; split <;> exact ⟨rfl, rfl⟩
    rw [(h3 _).1, (h3 _).2]
    unfold DB.moveRequests
    cases hg : amGet d1.requests nhi.raftAddress with
    | none =>
      simp only
      exact ⟨h1.1 ▸ hreq, mboxAll_amDel P _ _ (h1.2 ▸ hout)⟩
    | some rs =>
      simp only
      refine ⟨mboxAll_amDel P _ _ (h1.1 ▸ hreq), mboxAll_amPut P _ _ _ (mboxAll_amDel P _ _ (h1.2 ▸ hout)) ?_⟩
      exact mboxAll_amGet P d1.requests _ rs (h1.1 ▸ hreq) hg

#print axioms applyRequests_frame
#print axioms applyReport_mbox
end Drummer
