import DrummerVerif.Lemmas.NoReturnLoop
/-! versions order a group's history: what a membership knows and has removed only grows with the version -/
namespace Drummer

structure Group.Mono (g : Group) : Prop where
  known : ∀ m1 ∈ g.hist, ∀ m2 ∈ g.hist, m1.ver ≤ m2.ver → ∀ x, m1.Known x → m2.Known x
  removed : ∀ m1 ∈ g.hist, ∀ m2 ∈ g.hist, m1.ver ≤ m2.ver → ∀ x ∈ m1.removed, x ∈ m2.removed

theorem mono_single (s v : Nat) (ms : List (Nat × Addr)) :
    Group.Mono { shard := s, hist := [{ ver := v, members := ms, removed := [] }] } := by
  constructor
  · intro m1 h1 m2 h2 _ x hk
    simp only [List.mem_singleton] at h1 h2; subst h1; subst h2; exact hk
  · intro m1 h1 m2 h2 _ x hx
    simp only [List.mem_singleton] at h1 h2; subst h1; subst h2; exact hx

theorem mono_append (g : Group) (hne : g.hist ≠ []) (hn : g.NoReturn) (hm : g.Mono) (r : Request) (id : Nat)
    (ms : List (Nat × Addr)) (rm : List Nat) (h : changeMembers g.cur r id = some (ms, rm)) (v : Nat)
    (hv : ∀ m ∈ g.hist, m.ver < v) :
    Group.Mono { g with hist := g.hist ++ [{ ver := v, members := ms, removed := rm }] } := by
  have hcur := cur_mem g hne
  obtain ⟨_, h2, h3⟩ := changeMembers_noReturn g.cur r id ms rm (hn.disj _ hcur) h v
  constructor
  · intro m1 h1 m2 h2' hle x hk
    simp only [List.mem_append, List.mem_singleton] at h1 h2'
    rcases h1 with h1 | rfl <;> rcases h2' with h2' | rfl
    · exact hm.known m1 h1 m2 h2' hle x hk
    · exact h3 x (hn.known m1 h1 x hk)
    · have := hv m2 h2'; simp at hle; omega
    · exact hk
  · intro m1 h1 m2 h2' hle x hx
    simp only [List.mem_append, List.mem_singleton] at h1 h2'
    rcases h1 with h1 | rfl <;> rcases h2' with h2' | rfl
    · exact hm.removed m1 h1 m2 h2' hle x hx
    · exact h2 x (hn.removed m1 h1 x hx)
    · have := hv m2 h2'; simp at hle; omega
    · exact hx

def Loop.AllMono (l : Loop) : Prop := ∀ g ∈ l.groups, g.Mono

theorem allMono_of_groups_eq (l l' : Loop) (hg : l'.groups = l.groups) (h : l.AllMono) : l'.AllMono := by
  unfold Loop.AllMono; rw [hg]; exact h

theorem execChange_allMono (l : Loop) (h : Host) (r : Request) (hn : l.AllNR) (hm : l.AllMono)
    (hv : ∀ g ∈ l.groups, ∀ m ∈ g.hist, m.ver ≤ l.nextVer) : (l.execChange h r).AllMono := by
  unfold Loop.execChange
  cases hg : l.group? r.shardId with
  | none => exact hm
  | some g =>
    cases hid : r.members.head? with
    | none => exact hm
    | some id =>
      simp only
      cases ha : l.changeApplicable h g r with
      | none => exact hm
      | some rep =>
        simp only
        cases hc : changeMembers g.cur r id with
        | none => exact hm
        | some p =>
          obtain ⟨ms, rm⟩ := p
          simp only
          obtain ⟨hgmem, hgs⟩ := group?_mem l _ g hg
          have hex : l.groups.any (·.shard == g.shard) = true := List.any_eq_true.mpr ⟨g, hgmem, by simp⟩
          intro x hx
          rcases mem_setGroup_replace ({ l with nextVer := l.nextVer + 1 } : Loop)
            { g with hist := g.hist ++ [{ ver := l.nextVer + 1, members := ms, removed := rm }] } hex x hx with rfl | ⟨hxm, _⟩
          · exact mono_append g (hn g hgmem).1 (hn g hgmem).2 (hm g hgmem) r id ms rm hc _
              (fun m hmm => by have := hv g hgmem m hmm; omega)
          · exact hm x hxm

theorem exec1_allMono (l : Loop) (a : Addr) (r : Request) (hn : l.AllNR) (hm : l.AllMono)
    (hv : ∀ g ∈ l.groups, ∀ m ∈ g.hist, m.ver ≤ l.nextVer) : (l.exec1 a r).AllMono := by
  unfold Loop.exec1
  cases hh : l.host? a with
  | none => exact hm
  | some h =>
    simp only
    cases ht : r.type with
    | create =>
      simp only
      rcases execCreate_cases l h r with ⟨e1, _⟩ | hf
      · exact allMono_of_groups_eq l _ e1 hm
      · intro g hg
        rw [hf.groups] at hg
        rcases List.mem_append.mp hg with hg | hg
        · exact hm g hg
        · simp only [List.mem_singleton] at hg; subst hg
          exact mono_single _ _ _
    | kill => simp only; exact allMono_of_groups_eq l _ (execKill_groups l h r).1 hm
    | add => simp only; exact execChange_allMono l h r hn hm hv
    | delete => simp only; exact execChange_allMono l h r hn hm hv

#print axioms mono_append
#print axioms exec1_allMono
end Drummer
