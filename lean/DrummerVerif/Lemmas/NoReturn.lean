import DrummerVerif.Lemmas.LoopStep
/-! removed replica ids never come back: the invariant behind C11 `member_never_killed` and C02 "fresh id" -/
namespace Drummer

def Membership.Known (m : Membership) (x : Nat) : Prop := x ∈ m.members.map (·.1) ∨ x ∈ m.removed
def Membership.Disj (m : Membership) : Prop := ∀ x ∈ m.removed, x ∉ m.members.map (·.1)

/-- what one admitted membership change does to members / removed -/
theorem changeMembers_noReturn (cur : Membership) (r : Request) (id : Nat) (ms : List (Nat × Addr)) (rm : List Nat)
    (hd : cur.Disj) (h : changeMembers cur r id = some (ms, rm)) (v : Nat) :
    let m' : Membership := { ver := v, members := ms, removed := rm }
    m'.Disj ∧ (∀ x ∈ cur.removed, x ∈ rm) ∧ (∀ x, cur.Known x → m'.Known x) := by
  unfold changeMembers at h
  by_cases ht : (r.type == .add) = true
  · simp only [ht, if_true] at h
    cases hh : r.addressList.head? with
    | none => simp [hh] at h
    | some na =>
      simp only [hh] at h
      split at h
      · cases h
      · rename_i hc
        cases h
        simp only [Bool.or_eq_true, not_or, Bool.not_eq_true] at hc
        obtain ⟨⟨hrem, hmem⟩, _⟩ := hc
        refine ⟨?_, fun x hx => hx, ?_⟩
        · intro x hx hxm
          simp only [List.map_append, List.map_cons, List.map_nil, List.mem_append, List.mem_singleton] at hxm
          rcases hxm with hxm | rfl
          · exact hd x hx hxm
          · have : cur.removed.contains x = true := List.contains_iff_mem.mpr hx
            rw [this] at hrem; cases hrem
        · intro x hk
          rcases hk with hk | hk
          · left; simp only [List.map_append, List.mem_append]; exact Or.inl hk
          · right; exact hk
  · simp only [ht, Bool.false_eq_true, if_false] at h
    split at h
    · cases h
    · cases h
      refine ⟨?_, fun x hx => by simp [hx], ?_⟩
      · intro x hx hxm
        simp only [List.mem_map, List.mem_filter] at hxm
        obtain ⟨p, ⟨hp, hne⟩, rfl⟩ := hxm
        simp only [List.mem_cons] at hx
        rcases hx with rfl | hx
        · simp at hne
        · exact hd p.1 hx (List.mem_map_of_mem hp)
      · intro x hk
        by_cases hx : x = id
        · right; simp [hx]
        · rcases hk with hk | hk
          · left
            simp only [List.mem_map] at hk ⊢
            obtain ⟨p, hp, rfl⟩ := hk
            exact ⟨p, List.mem_filter.mpr ⟨hp, by simpa using hx⟩, rfl⟩
          · right; simp [hk]

/-- the per-group invariant: the current membership dominates every earlier one -/
structure Group.NoReturn (g : Group) : Prop where
  disj : ∀ m ∈ g.hist, m.Disj
  removed : ∀ m ∈ g.hist, ∀ x ∈ m.removed, x ∈ g.cur.removed
  known : ∀ m ∈ g.hist, ∀ x, m.Known x → g.cur.Known x

theorem cur_append (g : Group) (m : Membership) : ({ g with hist := g.hist ++ [m] } : Group).cur = m := by
  unfold Group.cur; simp

/-- appending the membership an admitted change produces keeps the invariant -/
theorem noReturn_append (g : Group) (hne : g.hist ≠ []) (hn : g.NoReturn) (r : Request) (id : Nat) (ms : List (Nat × Addr))
    (rm : List Nat) (h : changeMembers g.cur r id = some (ms, rm)) (v : Nat) :
    Group.NoReturn { g with hist := g.hist ++ [{ ver := v, members := ms, removed := rm }] } := by
  have hcur := cur_mem g hne
  obtain ⟨h1, h2, h3⟩ := changeMembers_noReturn g.cur r id ms rm (hn.disj _ hcur) h v
  constructor
  · intro m hm
    simp only [List.mem_append, List.mem_singleton] at hm
    rcases hm with hm | rfl
    · exact hn.disj m hm
    · exact h1
  · intro m hm x hx
    rw [cur_append]
    simp only [List.mem_append, List.mem_singleton] at hm
    rcases hm with hm | rfl
    · exact h2 x (hn.removed m hm x hx)
    · exact hx
  · intro m hm x hk
    rw [cur_append]
    simp only [List.mem_append, List.mem_singleton] at hm
    rcases hm with hm | rfl
    · exact h3 x (hn.known m hm x hk)
    · exact hk

/-- the consequences: an id that was ever removed, or was ever known and is not a member now, is not a member now and
    is in the current removed set — and since this is an invariant, it never is a member again -/
theorem NoReturn.never_again (g : Group) (hne : g.hist ≠ []) (hn : g.NoReturn) (m : Membership) (hm : m ∈ g.hist) (x : Nat) :
    (x ∈ m.removed → x ∉ g.cur.members.map (·.1)) ∧
    (m.Known x → x ∉ g.cur.members.map (·.1) → x ∈ g.cur.removed) := by
  have hcur := cur_mem g hne
  constructor
  · intro hx; exact hn.disj _ hcur x (hn.removed m hm x hx)
  · intro hk hnot
    rcases hn.known m hm x hk with h | h
    · exact absurd h hnot
    · exact h

/-- a founded group satisfies the invariant -/
theorem noReturn_single (s v : Nat) (ms : List (Nat × Addr)) :
    Group.NoReturn { shard := s, hist := [{ ver := v, members := ms, removed := [] }] } := by
  constructor
  · intro m hm; simp only [List.mem_singleton] at hm; subst hm; intro x hx; simp at hx
  · intro m hm x hx; simp only [List.mem_singleton] at hm; subst hm; simp at hx
  · intro m hm x hk; simp only [List.mem_singleton] at hm; subst hm; simpa [Group.cur] using hk

#print axioms noReturn_append
#print axioms NoReturn.never_again
end Drummer
