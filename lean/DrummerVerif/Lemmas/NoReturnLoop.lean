import DrummerVerif.Lemmas.NoReturn
import DrummerVerif.Lemmas.C02
/-! the NoReturn invariant through every event of the closed loop -/
namespace Drummer

def Loop.AllNR (l : Loop) : Prop := ∀ g ∈ l.groups, g.hist ≠ [] ∧ g.NoReturn

theorem allNR_of_groups_eq (l l' : Loop) (hg : l'.groups = l.groups) (h : l.AllNR) : l'.AllNR := by
  unfold Loop.AllNR; rw [hg]; exact h

theorem execChange_allNR (l : Loop) (h : Host) (r : Request) (hn : l.AllNR) : (l.execChange h r).AllNR := by
  unfold Loop.execChange
  cases hg : l.group? r.shardId with
  | none => exact hn
  | some g =>
    cases hid : r.members.head? with
    | none => exact hn
    | some id =>
      simp only
      cases ha : l.changeApplicable h g r with
      | none => exact hn
      | some rep =>
        simp only
        cases hm : changeMembers g.cur r id with
        | none => exact hn
        | some p =>
          obtain ⟨ms, rm⟩ := p
          simp only
          obtain ⟨hgmem, hgs⟩ := group?_mem l _ g hg
          have hex : l.groups.any (·.shard == g.shard) = true := List.any_eq_true.mpr ⟨g, hgmem, by simp⟩
          intro x hx
          rcases mem_setGroup_replace ({ l with nextVer := l.nextVer + 1 } : Loop)
            { g with hist := g.hist ++ [{ ver := l.nextVer + 1, members := ms, removed := rm }] } hex x hx with rfl | ⟨hxm, _⟩
          · exact ⟨by simp, noReturn_append g (hn g hgmem).1 (hn g hgmem).2 r id ms rm hm _⟩
          · exact hn x hxm

theorem exec1_allNR (l : Loop) (a : Addr) (r : Request) (hn : l.AllNR) : (l.exec1 a r).AllNR := by
  unfold Loop.exec1
  cases hh : l.host? a with
  | none => exact hn
  | some h =>
    simp only
    cases ht : r.type with
    | create =>
      simp only
      rcases execCreate_cases l h r with ⟨e1, _⟩ | hf
      · exact allNR_of_groups_eq l _ e1 hn
      · intro g hg
        rw [hf.groups] at hg
        rcases List.mem_append.mp hg with hg | hg
        · exact hn g hg
        · simp only [List.mem_singleton] at hg; subst hg
          exact ⟨by simp [freshGroup], noReturn_single _ _ _⟩
    | kill => simp only; exact allNR_of_groups_eq l _ (execKill_groups l h r).1 hn
    | add => simp only; exact execChange_allNR l h r hn
    | delete => simp only; exact execChange_allNR l h r hn

theorem execList_allNR (a : Addr) : ∀ (q : List Request) (l : Loop), l.AllNR → (q.foldl (fun l r => l.exec1 a r) l).AllNR := by
  intro q
  induction q with
  | nil => intro l h; exact h
  | cons r rest ih => intro l h; simp only [List.foldl_cons]; exact ih _ (exec1_allNR l a r h)

theorem step_allNR (size : Nat → Nat) (l l' : Loop) (hn : l.AllNR) (hs : Step size l l') : l'.AllNR := by
  cases hs with
  | dbLocal db' _ _ _ => exact allNR_of_groups_eq l _ rfl hn
  | report _ a lost n h =>
    unfold Loop.report at h
    cases hh : l.host? a with
    | none => simp [hh] at h
    | some hst =>
      simp only [hh] at h
      cases ha : l.db.applyReport (l.buildReport { hst with reportCount := hst.reportCount + 1 } (hst.reportCount + 1)) with
      | panic w => simp [ha] at h
      | ok p => obtain ⟨db', k⟩ := p; simp only [ha] at h; cases h; exact allNR_of_groups_eq l _ rfl hn
  | schedule _ _ _ _ _ _ _ _ _ _ => exact allNR_of_groups_eq l _ rfl hn
  | launch _ _ _ _ _ _ _ _ _ => exact allNR_of_groups_eq l _ rfl hn
  | execute a =>
    unfold Loop.execute
    cases hh : l.host? a with
    | none => exact hn
    | some h => simp only; exact execList_allNR a h.queue _ (allNR_of_groups_eq l _ rfl hn)
  | hostLocal _ _ _ _ => exact allNR_of_groups_eq l _ rfl hn

/-- in every reachable state of the closed loop: an id that any earlier membership of a group had removed, or knew and
    the current one does not contain, is not a member of the current membership — a removed replica never returns -/
theorem reachable_noReturn (size : Nat → Nat) (l l' : Loop) (hn : l.AllNR) (hs : Steps size l l') : l'.AllNR := by
  induction hs with
  | refl => exact hn
  | tail l' l'' _ hstep ih => exact step_allNR size l' l'' ih hstep

#print axioms reachable_noReturn
end Drummer
