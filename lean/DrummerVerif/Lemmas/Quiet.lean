import DrummerVerif.Lemmas.C01T
/-! C01 "and keeps holding" / C11 "a healthy fleet without stray replicas eventually receives no requests at all":
    a settled fleet (every view at its group's newest membership, every running replica a caught-up member on its own
    NodeHost, empty mailboxes and queues, no recorded stray) stays settled under reports, executions and scheduling
    rounds, and a scheduling round over healthy views issues nothing. -/
namespace Drummer

/-! ### scheduler side -/

/-- the scheduler context as `updateSchedulerContext` builds it from the replicated state: exactly the views that need
    work, classified at the state's tick, the state's kill list, clock and NodeHost records -/
structure CtxExact (d : DB) (cx : Ctx) : Prop extends CtxFrom d cx where
  needed : ∀ cr ∈ cx.repairs, cr.failed ≠ [] ∨ cr.toStart ≠ []
  complete : ∀ c ∈ d.image.shards, (c.failedReplicas d.tick ≠ [] ∨ c.toStart d.tick ≠ []) → ∃ cr ∈ cx.repairs, cr.shard = c
  kills : cx.toKill = d.image.toKill
  now : cx.tick = d.tick
  hostsAll : cx.allHosts = d.hosts

/-- every member of every view is healthy at the state's clock -/
def DB.AllHealthy (d : DB) : Prop :=
  ∀ c ∈ d.image.shards, c.failedReplicas d.tick = [] ∧ c.toStart d.tick = []

/-- **a round over healthy views with no recorded stray issues nothing**, consumes no draw and cannot fail -/
theorem healthy_round_is_empty (d : DB) (cx : Ctx) (draws : List Nat) (hcx : CtxExact d cx) (hh : d.AllHealthy)
    (hk : d.image.toKill = []) : maintain cx draws = .ok [] draws := by
  apply healed_quiet cx draws
  · cases hr : cx.repairs with
    | nil => rfl
    | cons cr rest =>
      exfalso
      have hmem : cr ∈ cx.repairs := by rw [hr]; exact List.mem_cons_self
      obtain ⟨hsh, pf, _, pw⟩ := hcx.repairs cr hmem
      obtain ⟨hf, hw⟩ := hh cr.shard hsh
      rw [hf] at pf; rw [hw] at pw
      rcases hcx.needed cr hmem with h | h
      · exact h (List.Perm.eq_nil pf)
      · exact h (List.Perm.eq_nil pw)
  · rw [hcx.kills, hk]

/-- an empty round leaves the replicated state as it is -/
theorem empty_round_changes_nothing (d d' : DB) (n : Nat) (h : d.applyRequests [] = .ok (d', n)) : d' = d ∧ n = 0 := by
  unfold DB.applyRequests isLaunchBatch at h
  simp [DB.mergeRequests] at h
  exact ⟨h.1.symm, h.2.symm⟩

/-! ### replicated-state side: a report that tells Drummer nothing new -/

/-- a report entry that tells Drummer nothing new: membership details left out (Drummer is up to date), not pending, for a
    shard Drummer has a view of, at a version no older than that view -/
def ShardInfo.Current (mc : MultiShard) (ci : ShardInfo) : Prop :=
  ci.incomplete = true ∧ ci.isLeader = false ∧ ∀ ec, mc.find? ci.shardId = some ec → ec.cci ≤ ci.cci

theorem weakKill_current (ec : Shard) (ci : ShardInfo) (h : ec.cci ≤ ci.cci) : ec.weakKill ci = false := by
  unfold Shard.weakKill Shard.killRequestRequired
  simp [h]

/-- the `doUpdate` loop over entries that tell nothing new: no view changes, nobody is flagged -/
theorem doUpdateLoop_current (t : Nat) (mc : MultiShard) : ∀ (infos acc : List ShardInfo),
    (∀ ci ∈ infos, ci.Current mc) → doUpdateLoop t mc infos acc = .ok (mc, acc.reverse) := by
  intro infos
  induction infos with
  | nil => intro acc _; rfl
  | cons ci rest ih =>
    intro acc h
    obtain ⟨hinc, _, hver⟩ := h ci List.mem_cons_self
    unfold doUpdateLoop
    have h1 : doUpdate1 t mc ci = .ok (mc, false) := by
      unfold doUpdate1
      cases hf : mc.find? ci.shardId with
      | none => simp [hinc]
      | some ec => simp [hinc, weakKill_current ec ci (hver ec hf)]
    simp only [h1, Bool.false_eq_true, if_false]
    exact ih acc (fun x hx => h x (List.mem_cons_of_mem _ hx))

/-- the whole `update` on such a report: stamping and the leader pass over the unchanged views; the kill list loses the
    reporting address's entries and gains none -/
theorem update_current (mc : MultiShard) (nhi : NodeHostInfo) (h : ∀ ci ∈ nhi.shardInfo, ci.Current mc) :
    mc.update nhi = .ok (syncLeaderInfo
      { (updateNodeTick mc nhi) with toKill := (updateNodeTick mc nhi).toKill.filter (·.address != nhi.raftAddress) } nhi) := by
  unfold MultiShard.update
  simp [doUpdateLoop_current nhi.lastTick mc nhi.shardInfo [] h, bind, pure]

/-- shard ids with a view -/
def MultiShard.HasView (mc : MultiShard) (s : Nat) : Prop := ∃ c ∈ mc.shards, c.shardId = s

theorem put_hasView (mc : MultiShard) (ec : Shard) (f : Replica → Replica) (hec : ec ∈ mc.shards) (s : Nat)
    (h : mc.HasView s) : (mc.put { ec with replicas := ec.replicas.map f }).HasView s := by
  obtain ⟨c, hc, hs⟩ := h
  by_cases he : c.shardId = ec.shardId
  · exact ⟨{ ec with replicas := ec.replicas.map f }, (mem_put _ _ _).mpr (Or.inl rfl), by simp only; rw [← he]; exact hs⟩
  · exact ⟨c, (mem_put _ _ _).mpr (Or.inr ⟨hc, he⟩), hs⟩

theorem updateNodeTick_hasView (nhi : NodeHostInfo) (s : Nat) :
    ∀ (mc : MultiShard), mc.HasView s → (updateNodeTick mc nhi).HasView s := by
  unfold updateNodeTick
  induction nhi.shardInfo with
  | nil => intro mc h; exact h
  | cons ci rest ih =>
    intro mc h
    simp only [List.foldl_cons]
    apply ih
    cases hf : mc.find? ci.shardId with
    | none => simpa using h
    | some ec =>
      simp only
      split
      · exact put_hasView mc ec _ (find?_mem _ _ _ hf).1 s h
      · exact h

theorem syncLeaderInfo_hasView (nhi : NodeHostInfo) (s : Nat) :
    ∀ (mc : MultiShard), mc.HasView s → (syncLeaderInfo mc nhi).HasView s := by
  unfold syncLeaderInfo
  induction nhi.shardInfo with
  | nil => intro mc h; exact h
  | cons ci rest ih =>
    intro mc h
    simp only [List.foldl_cons]
    apply ih
    cases hf : mc.find? ci.shardId with
    | none => simpa using h
    | some ec =>
      simp only
      split
      · exact h
      · split
        · exact h
        · split
          · exact put_hasView mc ec _ (find?_mem _ _ _ hf).1 s h
          · split
            · exact put_hasView mc ec _ (find?_mem _ _ _ hf).1 s h
            · exact h

/-- what a report that tells nothing new does to the views: every shard predicate that does not look at report times and
    leader flags survives, no view disappears, the kill list only shrinks -/
theorem update_current_spec (mc mc' : MultiShard) (nhi : NodeHostInfo) (h : ∀ ci ∈ nhi.shardInfo, ci.Current mc)
    (hu : mc.update nhi = .ok mc') :
    (∀ (Q : Shard → Prop), (∀ (c : Shard) (f : Replica → Replica), Touch nhi.lastTick f → Q c → Q { c with replicas := c.replicas.map f }) →
        (∀ c ∈ mc.shards, Q c) → ∀ c ∈ mc'.shards, Q c) ∧
    (∀ s, mc.HasView s → mc'.HasView s) ∧
    (∀ k ∈ mc'.toKill, k ∈ mc.toKill) := by
  rw [update_current mc nhi h] at hu
  cases hu
  refine ⟨?_, ?_, ?_⟩
  · intro Q hq hall
    apply syncLeaderInfo_inv' Q nhi nhi.lastTick hq
    exact updateNodeTick_inv' Q nhi hq mc hall
  · intro s hs
    apply syncLeaderInfo_hasView nhi s
    exact updateNodeTick_hasView nhi s mc hs
  · intro k hk
    have h1 : (syncLeaderInfo { (updateNodeTick mc nhi) with
        toKill := (updateNodeTick mc nhi).toKill.filter (·.address != nhi.raftAddress) } nhi).toKill =
        (updateNodeTick mc nhi).toKill.filter (·.address != nhi.raftAddress) := syncLeaderInfo_toKill _ nhi
    rw [h1] at hk
    have h2 : (updateNodeTick mc nhi).toKill = mc.toKill := updateNodeTick_toKill mc nhi
    rw [h2] at hk
    exact (List.mem_filter.mp hk).1

/-! ### fleet side: the settled state -/

/-- what the loop looks like once nothing is left to do: every view is at its group's newest membership version, every
    running replica is caught up with its group (and its shard has a view), nothing is queued, scheduled or recorded -/
structure Loop.Settled (l : Loop) : Prop where
  views : ∀ c ∈ l.db.image.shards, ∃ g, l.group? c.shardId = some g ∧ c.cci = g.cur.ver
  running : ∀ h ∈ l.hosts, ∀ rep ∈ h.running,
    ∃ g, l.group? rep.shard = some g ∧ g.hist ≠ [] ∧ rep.applied = (g.hist.length : Int) - 1 ∧ l.db.image.HasView rep.shard
  queues : ∀ h ∈ l.hosts, h.queue = []
  noReqs : l.db.requests = []
  noKill : l.db.image.toKill = []

theorem hist_last_cur (g : Group) (hne : g.hist ≠ []) : g.hist[g.hist.length - 1]? = some g.cur := by
  unfold Group.cur
  rw [← List.getLast?_eq_getElem?]
  cases hl : g.hist.getLast? with
  | none => exact absurd (List.getLast?_eq_none_iff.mp hl) hne
  | some x => rfl

theorem hasView_find (mc : MultiShard) (s : Nat) (h : mc.HasView s) : ∃ c, mc.find? s = some c := by
  obtain ⟨c, hc, hs⟩ := h
  unfold MultiShard.find?
  cases hf : mc.shards.find? (·.shardId == s) with
  | some x => exact ⟨x, rfl⟩
  | none =>
    have := List.find?_eq_none.mp hf c hc
    simp [hs] at this

/-- in a settled state a report tells Drummer nothing new: every entry leaves the details out, at the view's version -/
theorem buildReport_current (l : Loop) (hs : l.Settled) (h : Host)
    (hrun : ∀ rep ∈ h.running,
      ∃ g, l.group? rep.shard = some g ∧ g.hist ≠ [] ∧ rep.applied = (g.hist.length : Int) - 1 ∧ l.db.image.HasView rep.shard)
    (count : Nat) : ∀ ci ∈ (l.buildReport h count).shardInfo, ci.Current l.db.image := by
  intro ci hci
  unfold Loop.buildReport at hci
  simp only [List.mem_filterMap] at hci
  obtain ⟨sid, _, hsome⟩ := hci
  cases hr : h.run? sid with
  | none => simp [hr] at hsome
  | some r =>
    simp only [hr] at hsome
    obtain ⟨hmem, hsid⟩ := run?_mem h sid r hr
    obtain ⟨g, hg, hne, hap, hv⟩ := hrun r hmem
    rw [hsid] at hg hv
    have hlen : 0 < g.hist.length := List.length_pos_iff.mpr hne
    have hneg : ¬ r.applied < 0 := by rw [hap]; omega
    have htn : r.applied.toNat = g.hist.length - 1 := by rw [hap]; omega
    simp only [hneg, if_false, hg, htn, hist_last_cur g hne] at hsome
    obtain ⟨c, hc⟩ := hasView_find _ sid hv
    obtain ⟨hcm, hcs⟩ := find?_mem _ _ _ hc
    obtain ⟨g', hg', hcci⟩ := hs.views c hcm
    rw [hcs, hg] at hg'
    cases hg'
    simp only [hc, Option.map_some, hcci, ge_iff_le, Nat.le_refl, if_true, Option.some.injEq] at hsome
    subst hsome
    refine ⟨rfl, rfl, ?_⟩
    intro ec hec
    simp only at hec
    rw [hc] at hec
    cases hec
    simp only; rw [hcci]; exact Nat.le_refl _

/-- a report applied to a state with nothing scheduled: nothing is handed out, nothing becomes scheduled -/
theorem applyReport_nothing_scheduled (d d' : DB) (nhi : NodeHostInfo) (n : Nat) (hr : d.requests = [])
    (h : d.applyReport nhi = .ok (d', n)) : d'.requests = [] ∧ n = 0 ∧ d'.lookupRequests nhi.raftAddress = [] := by
  unfold DB.applyReport at h
  cases hv : d.reportView nhi with
  | panic w => simp [hv] at h
  | ok d1 =>
    simp only [hv, Outcome.ok.injEq, Prod.mk.injEq] at h
    have h1 : d1.requests = [] := by
      unfold DB.reportView at hv
      cases hu : d.image.update { nhi with lastTick := d.tick } with
      | panic w => simp [hu] at hv
      | ok image => simp only [hu] at hv; cases hv; exact hr
    have hm : d1.moveRequests nhi.raftAddress = ({ d1 with outgoing := amDel d1.outgoing nhi.raftAddress }, 0) := by
      unfold DB.moveRequests
      simp [h1, amGet]
    rw [hm] at h
    obtain ⟨rfl, rfl⟩ := h
    have ho : ∀ x : DB, x.onUpdatedShardInfo.requests = x.requests ∧ x.onUpdatedShardInfo.outgoing = x.outgoing := by
      intro x; unfold DB.onUpdatedShardInfo; split <;> exact ⟨rfl, rfl⟩
    refine ⟨by rw [(ho _).1]; exact h1, rfl, ?_⟩
    unfold DB.lookupRequests
    rw [(ho _).2]
    simp only
    rw [amGet_amDel]
    simp

/-! ### the fleet does not move -/

/-- what matters of a NodeHost for "every member is running": its replicas, its data, whether it is up -/
def Host.view (h : Host) : List SimReplica × Bool × List ((Nat × Nat) × Int) := (h.running, h.up, h.data)

/-- same groups, and every address resolves to a NodeHost with the same replicas, data and power state -/
def SameFleet (l l' : Loop) : Prop :=
  l'.groups = l.groups ∧ ∀ b, (l'.host? b).map Host.view = (l.host? b).map Host.view

theorem sameFleet_refl (l : Loop) : SameFleet l l := ⟨rfl, fun _ => rfl⟩

theorem sameFleet_trans (l1 l2 l3 : Loop) (h12 : SameFleet l1 l2) (h23 : SameFleet l2 l3) : SameFleet l1 l3 :=
  ⟨h23.1.trans h12.1, fun b => (h23.2 b).trans (h12.2 b)⟩

theorem find?_map_addr (hs : List Host) (h' : Host) (b : Addr) :
    (hs.map fun x => if x.addr == h'.addr then h' else x).find? (·.addr == b) =
      (hs.find? (·.addr == b)).map fun x => if x.addr == h'.addr then h' else x := by
  induction hs with
  | nil => rfl
  | cons x xs ih =>
    simp only [List.map_cons, List.find?_cons]
    by_cases hx : (x.addr == h'.addr) = true
    · have hxe : x.addr = h'.addr := by simpa using hx
      simp only [hx, if_true]
      by_cases hb : (x.addr == b) = true
      · have : (h'.addr == b) = true := by rw [← hxe]; exact hb
        simp [hb, this, hxe]
      · have hbf : (x.addr == b) = false := by simpa using hb
        have : (h'.addr == b) = false := by rw [← hxe]; exact hbf
        simp only [hbf, this]; exact ih
    · have hxf : (x.addr == h'.addr) = false := by simpa using hx
      simp only [hxf, Bool.false_eq_true, if_false]
      by_cases hb : (x.addr == b) = true
      · have hne : ¬ x.addr = h'.addr := by simpa using hxf
        simp [hb, hne]
      · have hbf : (x.addr == b) = false := by simpa using hb
        simp only [hbf]; exact ih

/-- replacing the NodeHost at `a` by one with the same replicas, data and power state leaves the fleet as it is -/
theorem setHost_sameFleet (l X : Loop) (a : Addr) (h0 h' : Host) (hh : l.host? a = some h0) (ha : h'.addr = a)
    (hv : h'.view = h0.view) (hX : X.hosts = l.hosts) (hg : X.groups = l.groups) : SameFleet l (X.setHost h') := by
  refine ⟨hg, ?_⟩
  intro b
  unfold Loop.setHost Loop.host?
  simp only [hX]
  rw [find?_map_addr]
  cases hb : l.hosts.find? (·.addr == b) with
  | none => rfl
  | some x =>
    simp only [Option.map_some]
    by_cases hx : (x.addr == h'.addr) = true
    · simp only [hx, if_true]
      have hxb : x.addr = b := by simpa using List.find?_some hb
      have hxa : x.addr = a := by rw [← ha]; simpa using hx
      have : x = h0 := by
        have h1 : l.host? a = some x := by unfold Loop.host?; rw [← hxa, hxb]; exact hb
        rw [hh] at h1; cases h1; rfl
      rw [this, hv]
    · have hxf : (x.addr == h'.addr) = false := by simpa using hx
      simp only [hxf, Bool.false_eq_true, if_false]

/-- every member of every group's newest membership runs, on the NodeHost the membership names, and that NodeHost is up -/
def Loop.AllRunning (l : Loop) : Prop :=
  ∀ g ∈ l.groups, ∀ p ∈ g.cur.members,
    ∃ h, l.host? p.2 = some h ∧ h.up = true ∧ ∃ rep, h.run? g.shard = some rep ∧ rep.id = p.1

theorem allRunning_sameFleet (l l' : Loop) (hf : SameFleet l l') (h : l.AllRunning) : l'.AllRunning := by
  intro g hg p hp
  rw [hf.1] at hg
  obtain ⟨h0, hh0, hup, rep, hrun, hid⟩ := h g hg p hp
  have := hf.2 p.2
  rw [hh0] at this
  cases hh' : l'.host? p.2 with
  | none => simp [hh'] at this
  | some h' =>
    simp only [hh', Option.map_some, Option.some.injEq, Host.view, Prod.mk.injEq] at this
    obtain ⟨hr, hu, _⟩ := this
    refine ⟨h', rfl, by rw [hu]; exact hup, rep, ?_, hid⟩
    unfold Host.run? at hrun ⊢
    rw [hr]; exact hrun
/-- **a report keeps a settled fleet settled** (reply lost or not): the views keep their versions, nothing is recorded
    for killing, nothing is handed to the NodeHost, the fleet itself does not change (only the report counter) -/
theorem report_settled (l l' : Loop) (a : Addr) (lost : Bool) (n : Nat) (hs : l.Settled)
    (h : l.report a lost = .ok (l', n)) :
    l'.Settled ∧ n = 0 ∧ SameFleet l l' := by
  unfold Loop.report at h
  cases hh : l.host? a with
  | none => simp [hh] at h
  | some h0 =>
    simp only [hh] at h
    cases ha : l.db.applyReport (l.buildReport { h0 with reportCount := h0.reportCount + 1 } (h0.reportCount + 1)) with
    | panic w => simp [ha] at h
    | ok p =>
      obtain ⟨db2, n2⟩ := p
      simp only [ha, Outcome.ok.injEq, Prod.mk.injEq] at h
      obtain ⟨rfl, rfl⟩ := h
      have hmem : h0 ∈ l.hosts := by unfold Loop.host? at hh; exact List.mem_of_find?_eq_some hh
      have haddr : (l.buildReport { h0 with reportCount := h0.reportCount + 1 } (h0.reportCount + 1)).raftAddress = h0.addr := rfl
      have ha0 : h0.addr = a := by
        unfold Loop.host? at hh
        simpa using List.find?_some hh
      obtain ⟨hreq, hn, hlook⟩ := applyReport_nothing_scheduled l.db db2 _ n2 hs.noReqs ha
      rw [haddr, ha0] at hlook
      have hcur := buildReport_current l hs { h0 with reportCount := h0.reportCount + 1 } (hs.running h0 hmem) (h0.reportCount + 1)
      have hu := applyReport_image l.db db2 _ n2 ha
      have hcur' : ∀ ci ∈ ({ (l.buildReport { h0 with reportCount := h0.reportCount + 1 } (h0.reportCount + 1)) with
          lastTick := l.db.tick } : NodeHostInfo).shardInfo, ci.Current l.db.image := hcur
      obtain ⟨hQ, hV, hK⟩ := update_current_spec l.db.image db2.image _ hcur' hu
      -- the host after the report
      have hq0 : h0.queue = [] := hs.queues h0 hmem
      have hh2 : (if lost = true then { h0 with reportCount := h0.reportCount + 1 }
          else { h0 with reportCount := h0.reportCount + 1, queue := h0.queue ++ db2.lookupRequests a }) =
          ({ h0 with reportCount := h0.reportCount + 1 } : Host) := by
        cases lost
        · simp [hlook, hq0]
        · simp
      rw [hh2]
      have hhosts : ∀ x' ∈ (({ l with db := db2 } : Loop).setHost { h0 with reportCount := h0.reportCount + 1 }).hosts,
          x' = ({ h0 with reportCount := h0.reportCount + 1 } : Host) ∨ x' ∈ l.hosts := fun x' hx' => mem_setHost _ _ x' hx'
      refine ⟨⟨?_, ?_, ?_, hreq, ?_⟩, hn, ?_⟩
      · intro c hc
        have hc2 : c ∈ db2.image.shards := hc
        exact hQ (fun c => ∃ g, l.group? c.shardId = some g ∧ c.cci = g.cur.ver) (fun c f _ hq => hq) hs.views c hc2
      · intro x' hx' rep hrep
        rcases hhosts x' hx' with rfl | hx
        · obtain ⟨g, hg, hne, hap, hv⟩ := hs.running h0 hmem rep hrep
          exact ⟨g, hg, hne, hap, hV _ hv⟩
        · obtain ⟨g, hg, hne, hap, hv⟩ := hs.running x' hx rep hrep
          exact ⟨g, hg, hne, hap, hV _ hv⟩
      · intro x' hx'
        rcases hhosts x' hx' with rfl | hx
        · exact hq0
        · exact hs.queues x' hx
      · show db2.image.toKill = []
        cases hk : db2.image.toKill with
        | nil => rfl
        | cons k rest =>
          have := hK k (by rw [hk]; exact List.mem_cons_self)
          rw [hs.noKill] at this
          exact absurd this List.not_mem_nil
      · exact setHost_sameFleet l _ a h0 _ hh ha0 rfl rfl rfl


/-- executing an empty queue changes nothing -/
theorem execute_settled (l : Loop) (a : Addr) (hs : l.Settled) : (l.execute a).Settled ∧ SameFleet l (l.execute a) := by
  unfold Loop.execute
  cases hh : l.host? a with
  | none => exact ⟨hs, sameFleet_refl l⟩
  | some h0 =>
    simp only
    have hmem : h0 ∈ l.hosts := by unfold Loop.host? at hh; exact List.mem_of_find?_eq_some hh
    have hq : h0.queue = [] := hs.queues h0 hmem
    rw [hq]
    simp only [List.foldl_nil]
    have ha0 := host?_addr l a h0 hh
    refine ⟨⟨hs.views, ?_, ?_, hs.noReqs, hs.noKill⟩, setHost_sameFleet l l a h0 _ hh ha0 rfl rfl rfl⟩
    · intro x' hx' rep hrep
      rcases mem_setHost l _ x' hx' with rfl | hx
      · exact hs.running h0 hmem rep hrep
      · exact hs.running x' hx rep hrep
    · intro x' hx'
      rcases mem_setHost l _ x' hx' with rfl | hx
      · rfl
      · exact hs.queues x' hx

theorem foldl_fixed {α β : Type} (f : α → β → α) (P : β → Prop) (hf : ∀ acc r, P r → f acc r = acc) :
    ∀ (rs : List β), (∀ r ∈ rs, P r) → ∀ acc, rs.foldl f acc = acc := by
  intro rs
  induction rs with
  | nil => intro _ acc; rfl
  | cons r rest ih =>
    intro hP acc
    simp only [List.foldl_cons]
    rw [hf acc r (hP r List.mem_cons_self)]
    exact ih (fun x hx => hP x (List.mem_cons_of_mem _ hx)) acc

/-- log catch-up on a settled fleet finds nothing to catch up with -/
theorem progress_settled (l : Loop) (a : Addr) (all : Bool) (hs : l.Settled) :
    (l.progress a all).Settled ∧ SameFleet l (l.progress a all) := by
  unfold Loop.progress
  cases hh : l.host? a with
  | none => exact ⟨hs, sameFleet_refl l⟩
  | some h0 =>
    simp only
    have hmem : h0 ∈ l.hosts := by unfold Loop.host? at hh; exact List.mem_of_find?_eq_some hh
    rw [foldl_fixed _ (fun r => r ∈ h0.running) ?_ h0.running (fun r hr => hr) h0]
    · have ha0 := host?_addr l a h0 hh
      refine ⟨⟨hs.views, ?_, ?_, hs.noReqs, hs.noKill⟩, setHost_sameFleet l l a h0 h0 hh ha0 rfl rfl rfl⟩
      · intro x hx rep hrep
        rcases mem_setHost l _ x hx with rfl | hx'
        · exact hs.running x hmem rep hrep
        · exact hs.running x hx' rep hrep
      · intro x hx
        rcases mem_setHost l _ x hx with rfl | hx'
        · exact hs.queues x hmem
        · exact hs.queues x hx'
    · intro acc r hr
      obtain ⟨g, hg, _, hap, _⟩ := hs.running h0 hmem r hr
      simp only [hg]
      split
      · rfl
      · simp [hap]

/-- the fault-free events of a settled fleet: the clock ticks, NodeHosts report (the reply may be lost), NodeHosts work
    off their queues, replicas catch up with their logs, and the leader runs scheduling rounds at moments when every member is classified healthy -/
inductive QuietStep : Loop → Loop → Prop
  | tick (l : Loop) (db' : DB) (n : Nat) : l.db.applyTick = .ok (db', n) → QuietStep l { l with db := db' }
  | report (l l' : Loop) (a : Addr) (lost : Bool) (n : Nat) : l.report a lost = .ok (l', n) → QuietStep l l'
  | execute (l : Loop) (a : Addr) : QuietStep l (l.execute a)
  | progress (l : Loop) (a : Addr) (all : Bool) : QuietStep l (l.progress a all)
  | schedule (l : Loop) (cx : Ctx) (draws rest : List Nat) (rs : List Request) (db' : DB) (n : Nat) :
      CtxExact l.db cx → l.db.AllHealthy → maintain cx draws = .ok rs rest → l.db.applyRequests rs = .ok (db', n) →
      QuietStep l { l with db := db' }

/-- one fault-free event on a settled fleet: it stays settled, the fleet does not move, and a scheduling round issues
    no request at all -/
theorem quiet_step (l l' : Loop) (hs : l.Settled) (hq : QuietStep l l') : l'.Settled ∧ SameFleet l l' := by
  cases hq with
  | tick db' n ht =>
    have hdb : db'.image = l.db.image ∧ db'.requests = l.db.requests := by
      unfold DB.applyTick at ht
      simp only at ht
      split at ht
      · cases ht
      · cases ht; exact ⟨rfl, rfl⟩
    refine ⟨⟨?_, ?_, hs.queues, ?_, ?_⟩, ⟨rfl, fun _ => rfl⟩⟩
    · show ∀ c ∈ db'.image.shards, _
      rw [hdb.1]; exact hs.views
    · intro h hh rep hrep
      obtain ⟨g, hg, hne, hap, hv⟩ := hs.running h hh rep hrep
      refine ⟨g, hg, hne, hap, ?_⟩
      show db'.image.HasView rep.shard
      rw [hdb.1]; exact hv
    · show db'.requests = []
      rw [hdb.2]; exact hs.noReqs
    · show db'.image.toKill = []
      rw [hdb.1]; exact hs.noKill
  | report _ a lost n h =>
    obtain ⟨h1, _, h3⟩ := report_settled l l' a lost n hs h
    exact ⟨h1, h3⟩
  | execute a => exact execute_settled l a hs
  | progress a all => exact progress_settled l a all hs
  | schedule cx draws rest rs db' n hcx hh hm hap =>
    have hrs : rs = [] := by
      have := healthy_round_is_empty l.db cx draws hcx hh hs.noKill
      rw [this] at hm
      cases hm; rfl
    subst hrs
    obtain ⟨hd, _⟩ := empty_round_changes_nothing l.db db' n hap
    subst hd
    exact ⟨hs, sameFleet_refl l⟩

inductive QuietSteps : Loop → Loop → Prop
  | refl (l : Loop) : QuietSteps l l
  | tail (l l' l'' : Loop) : QuietSteps l l' → QuietStep l' l'' → QuietSteps l l''

/-- **a healed fleet stays healed and receives nothing** (C01 "and keeps holding", C11 "a healthy fleet without stray
    replicas receives no requests at all"): from a settled state in which every member of every group is running, along
    any sequence of fault-free events - ticks, reports of any NodeHost in any order with or without lost replies,
    executions, scheduling rounds with any draws and map orders - every member keeps running where it was, no request is
    ever queued at a NodeHost, nothing is scheduled and no stray is recorded -/
theorem healed_fleet_stays_healed (l l' : Loop) (hs : l.Settled) (hr : l.AllRunning) (hq : QuietSteps l l') :
    l'.Settled ∧ l'.AllRunning ∧ SameFleet l l' := by
  induction hq with
  | refl => exact ⟨hs, hr, sameFleet_refl l⟩
  | tail l1 l2 _ hstep ih =>
    obtain ⟨hs1, hr1, hf1⟩ := ih
    obtain ⟨hs2, hf2⟩ := quiet_step l1 l2 hs1 hstep
    exact ⟨hs2, allRunning_sameFleet l1 l2 hf2 hr1, sameFleet_trans l l1 l2 hf1 hf2⟩

/-- the timing condition under which a scheduling round finds every member healthy: every member record carries a positive
    report time that is at most the failure timeout old (and the clock has not wrapped) -/
theorem recently_reported_is_healthy (d : DB) (hw : d.tick < 18446744073709551616)
    (h : ∀ c ∈ d.image.shards, ∀ r ∈ c.replicas, 0 < r.tick ∧ r.tick ≤ d.tick ∧ d.tick - r.tick ≤ nodeHostTTL) :
    d.AllHealthy := by
  intro c hc
  have hnf : ∀ r ∈ c.replicas, r.failed d.tick = false := by
    intro r hr
    obtain ⟨hpos, hle, hrec⟩ := h c hc r hr
    unfold Replica.failed
    have hne : (r.tick == 0) = false := by simp; omega
    simp only [hne, Bool.false_eq_true, if_false]
    unfold entityFailed usub64
    have : (d.tick + 18446744073709551616 - r.tick) % 18446744073709551616 = d.tick - r.tick := by
      have h1 : d.tick + 18446744073709551616 - r.tick = (d.tick - r.tick) + 18446744073709551616 := by omega
      rw [h1, Nat.add_mod_right, Nat.mod_eq_of_lt]; omega
    rw [this]
    simp only [decide_eq_false_iff_not]; omega
  constructor
  · unfold Shard.failedReplicas
    rw [List.filter_eq_nil_iff]
    intro r hr
    simp [hnf r hr]
  · unfold Shard.toStart
    rw [List.filter_eq_nil_iff]
    intro r hr
    obtain ⟨hpos, _, _⟩ := h c hc r hr
    unfold Replica.waiting
    have hne : (r.tick == 0) = false := by simp; omega
    simp [hne]

#print axioms healthy_round_is_empty
#print axioms empty_round_changes_nothing
#print axioms report_settled
#print axioms healed_fleet_stays_healed
end Drummer
