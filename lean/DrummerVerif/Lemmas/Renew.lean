import DrummerVerif.Lemmas.Cadence
/-! C01 / C11: reports renew the quiet window. `Hosted l`: every member record of every view is run by the NodeHost its
    address names (what `AllRunning` looks like from the views). A report of NodeHost `a` on a settled, hosted fleet
    stamps every record whose address is `a` with the current time and leaves the others alone; so once every NodeHost
    that a record names has reported since time `t0`, every record is at most `now - t0` old. -/
namespace Drummer

/-- every member record is run by the NodeHost its address names -/
def Loop.ViewsHosted (l : Loop) : Prop :=
  ∀ c ∈ l.db.image.shards, ∀ r ∈ c.replicas,
    ∃ h, l.host? r.address = some h ∧ ∃ rep, h.run? c.shardId = some rep ∧ rep.id = r.replicaId

/-- every record whose address is in `A` has a report time of at least `t0` -/
def DB.Since (d : DB) (t0 : Nat) (A : List Addr) : Prop :=
  ∀ c ∈ d.image.shards, ∀ r ∈ c.replicas, r.address ∈ A → t0 ≤ r.tick

theorem since_nil (d : DB) (t0 : Nat) : d.Since t0 [] := fun _ _ _ _ h => absurd h List.not_mem_nil

/-- a report of `a` on a settled, hosted fleet: the records named `a` are now stamped with the current time; nothing else
    about `Since`, `Hosted` or uniqueness of views changes -/
theorem report_since (l l' : Loop) (a : Addr) (lost : Bool) (n : Nat) (t0 : Nat) (A : List Addr)
    (hs : l.Settled) (hu : UniqueShards l.db.image) (hh : l.ViewsHosted) (ht : t0 ≤ l.db.tick) (hsin : l.db.Since t0 A)
    (h : l.report a lost = .ok (l', n)) :
    l'.db.Since t0 (a :: A) ∧ l'.ViewsHosted ∧ UniqueShards l'.db.image := by
  obtain ⟨hs', _, hf⟩ := report_settled l l' a lost n hs h
  -- decompose the report once, to get at the image update
  have hkey : ∃ h0 db2 n2, l.host? a = some h0 ∧
      l.db.applyReport (l.buildReport { h0 with reportCount := h0.reportCount + 1 } (h0.reportCount + 1)) = .ok (db2, n2) ∧
      l'.db = db2 := by
    unfold Loop.report at h
    cases hh0 : l.host? a with
    | none => simp [hh0] at h
    | some h0 =>
      simp only [hh0] at h
      cases ha : l.db.applyReport (l.buildReport { h0 with reportCount := h0.reportCount + 1 } (h0.reportCount + 1)) with
      | panic w => simp [ha] at h
      | ok p =>
        obtain ⟨db2, n2⟩ := p
        simp only [ha, Outcome.ok.injEq, Prod.mk.injEq] at h
        obtain ⟨rfl, _⟩ := h
        exact ⟨h0, db2, n2, rfl, ha, rfl⟩
  obtain ⟨h0, db2, n2, hh0, ha, hdb⟩ := hkey
  have hmem : h0 ∈ l.hosts := by unfold Loop.host? at hh0; exact List.mem_of_find?_eq_some hh0
  have hcur := buildReport_current l hs { h0 with reportCount := h0.reportCount + 1 } (hs.running h0 hmem) (h0.reportCount + 1)
  have hu2 := applyReport_image l.db db2 _ n2 ha
  have hcur' : ∀ ci ∈ ({ (l.buildReport { h0 with reportCount := h0.reportCount + 1 } (h0.reportCount + 1)) with
      lastTick := l.db.tick } : NodeHostInfo).shardInfo, ci.Current l.db.image := hcur
  obtain ⟨hQ, _, _⟩ := update_current_spec l.db.image db2.image _ hcur' hu2
  have huniq : UniqueShards db2.image := (update_stamps l.db.image db2.image _ hu hu2).1
  -- records keep the NodeHost that runs them (the fleet did not move)
  have hhosted0 : ∀ c ∈ db2.image.shards, ∀ r ∈ c.replicas,
      ∃ h, l.host? r.address = some h ∧ ∃ rep, h.run? c.shardId = some rep ∧ rep.id = r.replicaId := by
    intro c hc
    refine hQ (fun c => ∀ r ∈ c.replicas, ∃ h, l.host? r.address = some h ∧ ∃ rep, h.run? c.shardId = some rep ∧ rep.id = r.replicaId)
      ?_ hh c hc
    intro c f hT hq r hr
    simp only [List.mem_map] at hr
    obtain ⟨r0, hr0, rfl⟩ := hr
    rcases hT r0 with e | e | ⟨b, e⟩ <;> (rw [e]; exact hq r0 hr0)
  refine ⟨?_, ?_, by rw [hdb]; exact huniq⟩
  · intro c hc r hr hin
    have hc : c ∈ db2.image.shards := by rw [← hdb]; exact hc
    rcases List.mem_cons.mp hin with hra | hrA
    · -- a record named `a`: the NodeHost runs it, so the report lists it and it is stamped now
      obtain ⟨hx, hhx, rep, hrun, hid⟩ := hhosted0 c hc r hr
      rw [hra, hh0] at hhx
      cases hhx
      have hrs : rep.shard = c.shardId := (run?_mem h0 c.shardId rep hrun).2
      have hpos : rep.applied < 0 ∨ ∃ g m, l.group? rep.shard = some g ∧ g.hist[rep.applied.toNat]? = some m := by
        obtain ⟨g, hg, hne, hap, _⟩ := hs.running h0 hmem rep (run?_mem h0 c.shardId rep hrun).1
        right
        refine ⟨g, g.cur, hg, ?_⟩
        have hlen : 0 < g.hist.length := List.length_pos_iff.mpr hne
        have htn : rep.applied.toNat = g.hist.length - 1 := by rw [hap]; omega
        rw [htn]; exact hist_last_cur g hne
      have hrun' : h0.run? rep.shard = some rep := by rw [hrs]; exact hrun
      have hstamp := running_member_is_stamped l l' a lost n hu h h0 hh0 rep hrun' hpos c (by rw [hdb]; exact hc)
        hrs.symm r hr hid.symm
      rw [hstamp]; exact ht
    · refine hQ (fun c => ∀ r ∈ c.replicas, r.address ∈ A → t0 ≤ r.tick) ?_ hsin c hc r hr hrA
      intro c f hT hq r hr hin'
      simp only [List.mem_map] at hr
      obtain ⟨r0, hr0, rfl⟩ := hr
      rcases hT r0 with e | e | ⟨b, e⟩
      · rw [e] at hin' ⊢; exact hq r0 hr0 hin'
      · rw [e]; exact ht
      · rw [e] at hin' ⊢; exact hq r0 hr0 hin'
  · intro c hc r hr
    have hc : c ∈ db2.image.shards := by rw [← hdb]; exact hc
    obtain ⟨hx, hhx, rep, hrun, hid⟩ := hhosted0 c hc r hr
    obtain ⟨hx', hhx', hrun', _, _⟩ := sameFleet_host l l' hf r.address hx hhx
    refine ⟨hx', hhx', rep, ?_, hid⟩
    unfold Host.run? at hrun ⊢
    rw [hrun']; exact hrun

/-- when every NodeHost that a record names has reported since `t0`, every record is at most `now - t0` old -/
theorem since_all_fresh (d : DB) (t0 : Nat) (A : List Addr) (hpos : 0 < t0) (hsin : d.Since t0 A)
    (hall : ∀ c ∈ d.image.shards, ∀ r ∈ c.replicas, r.address ∈ A)
    (hle : ∀ c ∈ d.image.shards, ∀ r ∈ c.replicas, r.tick ≤ d.tick) : d.Fresh (d.tick - t0) := by
  intro c hc r hr
  have h1 := hsin c hc r hr (hall c hc r hr)
  have h2 := hle c hc r hr
  exact ⟨by omega, h2, by omega⟩

#print axioms report_since
#print axioms since_all_fresh
end Drummer
