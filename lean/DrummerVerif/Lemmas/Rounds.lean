import DrummerVerif.Lemmas.Renew
/-! C01 / C11: a healed fleet stays healed for ever under the reporting cadence. A *sweep* is a window (`k` ticks) during
    which the NodeHosts in `A` have each reported at least once. If every record names a NodeHost in `A`, the fleet comes
    out of the sweep with every record at most `k` ticks old, whatever age (within the window) it went in with - so sweeps
    can be chained without end. -/
namespace Drummer

/-- fault-free events of a window, indexed by the ticks they contain and by who reported -/
inductive SweepSteps : Loop → Loop → Nat → List Addr → Prop
  | refl (l : Loop) : SweepSteps l l 0 []
  | step (l l' l'' : Loop) (k j : Nat) (A : List Addr) : SweepSteps l l' k A → WindowStep l' l'' j →
      SweepSteps l l'' (k + j) A
  | report (l l' l'' : Loop) (k : Nat) (A : List Addr) (a : Addr) (lost : Bool) (n : Nat) : SweepSteps l l' k A →
      l'.report a lost = .ok (l'', n) → SweepSteps l l'' k (a :: A)

theorem viewsHosted_sameFleet (l l' : Loop) (hdb : l'.db.image = l.db.image) (hf : SameFleet l l') (h : l.ViewsHosted) :
    l'.ViewsHosted := by
  intro c hc r hr
  rw [hdb] at hc
  obtain ⟨hx, hhx, rep, hrun, hid⟩ := h c hc r hr
  obtain ⟨hx', hhx', hrun', _, _⟩ := sameFleet_host l l' hf r.address hx hhx
  refine ⟨hx', hhx', rep, ?_, hid⟩
  unfold Host.run? at hrun ⊢
  rw [hrun']; exact hrun

/-- a window event that is not counted as a report leaves the views alone (a report taken through `WindowStep.report` is
    a report all the same: it can only raise report times) -/
theorem windowStep_image (l l' : Loop) (j s : Nat) (hs : l.Settled) (hpos : 0 < l.db.tick) (hf : l.db.Fresh s)
    (hs' : s ≤ nodeHostTTL) (hw : l.db.tick < 18446744073709551616) (hu : UniqueShards l.db.image) (hh : l.ViewsHosted)
    (t0 : Nat) (A : List Addr) (ht : t0 ≤ l.db.tick) (hsin : l.db.Since t0 A) (h : WindowStep l l' j) :
    l'.db.Since t0 A ∧ l'.ViewsHosted ∧ UniqueShards l'.db.image ∧ l.db.tick ≤ l'.db.tick := by
  cases h with
  | tick db' n htk =>
    have hdb : db'.image = l.db.image ∧ db'.tick = l.db.tick + tickInterval := by
      unfold DB.applyTick at htk
      simp only at htk
      split at htk
      · cases htk
      · cases htk; exact ⟨rfl, rfl⟩
    refine ⟨?_, viewsHosted_sameFleet l _ hdb.1 ⟨rfl, fun _ => rfl⟩ hh, by show UniqueShards db'.image; rw [hdb.1]; exact hu,
      by show l.db.tick ≤ db'.tick; omega⟩
    intro c hc r hr hin
    have hc' : c ∈ l.db.image.shards := by rw [← hdb.1]; exact hc
    exact hsin c hc' r hr hin
  | report _ a lost n hr =>
    obtain ⟨h1, h2, h3⟩ := report_since l l' a lost n t0 A hs hu hh ht hsin hr
    obtain ⟨_, h4⟩ := report_fresh l l' a lost n s hs hpos hf hr
    exact ⟨fun c hc r hr' hin => h1 c hc r hr' (List.mem_cons_of_mem _ hin), h2, h3, by omega⟩
  | execute a =>
    obtain ⟨_, hfl⟩ := execute_settled l a hs
    have hdb : (l.execute a).db = l.db := execute_db l a
    refine ⟨by rw [hdb]; exact hsin, viewsHosted_sameFleet l _ (by rw [hdb]) hfl hh, by rw [hdb]; exact hu, by rw [hdb]; omega⟩
  | progress a all =>
    obtain ⟨_, hfl⟩ := progress_settled l a all hs
    have hdb : (l.progress a all).db = l.db := by
      unfold Loop.progress
      cases l.host? a <;> rfl
    refine ⟨by rw [hdb]; exact hsin, viewsHosted_sameFleet l _ (by rw [hdb]) hfl hh, by rw [hdb]; exact hu, by rw [hdb]; omega⟩
  | schedule cx draws rest rs db' n hcx hm hap =>
    have hhl := fresh_healthy l.db s hf hs' hw
    have hrs : rs = [] := by
      have := healthy_round_is_empty l.db cx draws hcx hhl hs.noKill
      rw [this] at hm
      cases hm; rfl
    subst hrs
    obtain ⟨hd, _⟩ := empty_round_changes_nothing l.db db' n hap
    subst hd
    exact ⟨hsin, hh, hu, Nat.le_refl _⟩

/-- everything a sweep keeps: quiet run, settled, hosted, unique views, aged freshness, and `Since` for its reporters -/
theorem sweep_inv (l l' : Loop) (k s : Nat) (A : List Addr) (hs : l.Settled) (hpos : 0 < l.db.tick) (hf : l.db.Fresh s)
    (hu : UniqueShards l.db.image) (hh : l.ViewsHosted)
    (hbound : s + k * tickInterval ≤ nodeHostTTL) (hw : l.db.tick + k * tickInterval < 18446744073709551616)
    (h : SweepSteps l l' k A) :
    QuietSteps l l' ∧ l'.Settled ∧ l'.db.Fresh (s + k * tickInterval) ∧ 0 < l'.db.tick ∧
      l'.db.tick ≤ l.db.tick + k * tickInterval ∧ l.db.tick ≤ l'.db.tick ∧
      UniqueShards l'.db.image ∧ l'.ViewsHosted ∧ l'.db.Since l.db.tick A := by
  induction h with
  | refl => exact ⟨.refl l, hs, by simpa using hf, hpos, by simp, Nat.le_refl _, hu, hh, since_nil _ _⟩
  | step la lb k1 j A1 hprev hstep ih =>
    have hsplit : (k1 + j) * tickInterval = k1 * tickInterval + j * tickInterval := Nat.add_mul _ _ _
    obtain ⟨hq, hsa, hfa, hposa, hta, htb, hua, hha, hsina⟩ := ih (by omega) (by omega)
    have hb1 : s + k1 * tickInterval ≤ nodeHostTTL := by omega
    have hwa : la.db.tick < 18446744073709551616 := by omega
    obtain ⟨hqs, hfb, hposb⟩ := window_step la lb j (s + k1 * tickInterval) hsa hposa hfa hb1 hwa hstep
    obtain ⟨hsb, _⟩ := quiet_step la lb hsa hqs
    obtain ⟨hsinb, hhb, hub, hmono⟩ := windowStep_image la lb j (s + k1 * tickInterval) hsa hposa hfa hb1 hwa hua hha
      l.db.tick A1 htb hsina hstep
    have hup : lb.db.tick ≤ la.db.tick + j * tickInterval := by
      cases hstep with
      | tick db' n ht =>
        have : db'.tick = la.db.tick + tickInterval := by
          unfold DB.applyTick at ht
          simp only at ht
          split at ht
          · cases ht
          · cases ht; rfl
        show db'.tick ≤ _
        omega
      | report _ a lost n hr =>
        obtain ⟨_, h2⟩ := report_fresh la lb a lost n (s + k1 * tickInterval) hsa hposa hfa hr
        omega
      | execute a => rw [execute_db]; omega
      | progress a all =>
        have hdb : (la.progress a all).db = la.db := by
          unfold Loop.progress
          cases la.host? a <;> rfl
        rw [hdb]; omega
      | schedule cx draws rest rs db' n hcx hm hap =>
        have hhl := fresh_healthy la.db _ hfa hb1 hwa
        have hrs : rs = [] := by
          have := healthy_round_is_empty la.db cx draws hcx hhl hsa.noKill
          rw [this] at hm
          cases hm; rfl
        subst hrs
        obtain ⟨hd, _⟩ := empty_round_changes_nothing la.db db' n hap
        subst hd
        show la.db.tick ≤ _
        omega
    refine ⟨.tail l la lb hq hqs, hsb, ?_, hposb, by omega, by omega, hub, hhb, hsinb⟩
    rw [hsplit, ← Nat.add_assoc]; exact hfb
  | report la lb k1 A1 a lost n hprev hrep ih =>
    obtain ⟨hq, hsa, hfa, hposa, hta, htb, hua, hha, hsina⟩ := ih hbound hw
    obtain ⟨hsb, _, _⟩ := report_settled la lb a lost n hsa hrep
    obtain ⟨hfb, htk⟩ := report_fresh la lb a lost n (s + k1 * tickInterval) hsa hposa hfa hrep
    obtain ⟨hsinb, hhb, hub⟩ := report_since la lb a lost n l.db.tick A1 hsa hua hha htb hsina hrep
    exact ⟨.tail l la lb hq (.report la lb a lost n hrep), hsb, hfb, by rw [htk]; exact hposa, by rw [htk]; exact hta,
      by rw [htk]; exact htb, hub, hhb, hsinb⟩

/-- **one sweep keeps the fleet healed and renews the window**: in a settled, hosted fleet whose records are at most `s`
    old, a window of `k` ticks (`s + k * tickInterval ≤ nodeHostTTL`) during which every NodeHost named by a record has
    reported at least once ends settled, hosted, and with every record at most `k * tickInterval` old - whatever `s` was.
    With `2 * k * tickInterval ≤ nodeHostTTL` the conclusion is again the premise: sweeps chain without end. -/
theorem sweep_renews (l l' : Loop) (k s : Nat) (A : List Addr) (hs : l.Settled) (hpos : 0 < l.db.tick) (hf : l.db.Fresh s)
    (hu : UniqueShards l.db.image) (hh : l.ViewsHosted)
    (hbound : s + k * tickInterval ≤ nodeHostTTL) (hw : l.db.tick + k * tickInterval < 18446744073709551616)
    (h : SweepSteps l l' k A) (hall : ∀ c ∈ l'.db.image.shards, ∀ r ∈ c.replicas, r.address ∈ A) :
    QuietSteps l l' ∧ l'.Settled ∧ l'.ViewsHosted ∧ UniqueShards l'.db.image ∧ 0 < l'.db.tick ∧
      l'.db.Fresh (k * tickInterval) := by
  obtain ⟨hq, hs', hf', hpos', hup, hlow, hu', hh', hsin⟩ := sweep_inv l l' k s A hs hpos hf hu hh hbound hw h
  refine ⟨hq, hs', hh', hu', hpos', ?_⟩
  have hfresh := since_all_fresh l'.db l.db.tick A hpos hsin hall (fun c hc r hr => (hf' c hc r hr).2.1)
  exact fresh_mono _ _ _ (by omega) hfresh

/-- any number of sweeps of `k` ticks each, every one covering the NodeHosts its final views name -/
inductive Sweeps (k : Nat) : Loop → Loop → Prop
  | refl (l : Loop) : Sweeps k l l
  | tail (l l' l'' : Loop) (A : List Addr) : Sweeps k l l' → SweepSteps l' l'' k A →
      l'.db.tick + k * tickInterval < 18446744073709551616 →
      (∀ c ∈ l''.db.image.shards, ∀ r ∈ c.replicas, r.address ∈ A) → Sweeps k l l''

/-- **a healed fleet stays healed for ever under the reporting cadence**: if two sweeps fit into the failure timeout
    (`2 * k * tickInterval ≤ nodeHostTTL`), a settled, hosted fleet in which every member is running and whose records are
    at most one sweep old goes through ANY number of sweeps - each a window of `k` ticks with arbitrary fault-free events
    in which every NodeHost named by a record reports at least once - and stays settled, every member running, no request
    issued. -/
theorem healed_for_ever_under_cadence (k : Nat) (l l' : Loop) (hs : l.Settled) (hr : l.AllRunning) (hpos : 0 < l.db.tick)
    (hf : l.db.Fresh (k * tickInterval)) (hu : UniqueShards l.db.image) (hh : l.ViewsHosted)
    (hk : 2 * (k * tickInterval) ≤ nodeHostTTL) (h : Sweeps k l l') :
    QuietSteps l l' ∧ l'.Settled ∧ l'.AllRunning ∧ l'.ViewsHosted ∧ UniqueShards l'.db.image ∧ 0 < l'.db.tick ∧
      l'.db.Fresh (k * tickInterval) := by
  induction h with
  | refl => exact ⟨.refl l, hs, hr, hh, hu, hpos, hf⟩
  | tail la lb A _ hsweep hwrap hall ih =>
    obtain ⟨hq, hsa, hra, hha, hua, hposa, hfa⟩ := ih
    obtain ⟨hq2, hsb, hhb, hub, hposb, hfb⟩ := sweep_renews la lb k (k * tickInterval) A hsa hposa hfa hua hha (by omega) hwrap hsweep hall
    have hq3 : QuietSteps l lb := by
      clear hsweep hall hfb hposb hub hhb hsb
      induction hq2 with
      | refl => exact hq
      | tail x y _ hst ih2 => exact .tail l x y ih2 hst
    obtain ⟨_, hrb, _⟩ := healed_fleet_stays_healed la lb hsa hra hq2
    exact ⟨hq3, hsb, hrb, hhb, hub, hposb, hfb⟩

#print axioms sweep_renews
#print axioms healed_for_ever_under_cadence
end Drummer
