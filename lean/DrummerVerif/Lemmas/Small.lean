import DrummerVerif.Lemmas.C10
import DrummerVerif.Lemmas.C04L
/-! Small laws the harness oracles of the later mutation rounds restate on the implementation, as theorems about the
    model: a report is on record at the DB's current time whatever time it carried (C17), an empty round is not a launch
    and leaves the launched flag and the deadline alone (C09/C10), a reporting member's leader flag follows its report
    (C04, one entry). -/
namespace Drummer

/-- C17/C05: whatever `lastTick` a report carries, the NodeHost record stored for its address carries the DB's current
    logical time -/
theorem report_recorded_at_current_time (d d' : DB) (nhi : NodeHostInfo) (n : Nat)
    (h : d.applyReport nhi = .ok (d', n)) :
    (amGet d'.hostInfo nhi.raftAddress).map (·.lastTick) = some d.tick := by
  unfold DB.applyReport at h
  cases hv : d.reportView nhi with
  | panic w => simp [hv] at h
  | ok d1 =>
    simp only [hv] at h
    cases h
    have h2 : (d1.moveRequests nhi.raftAddress).1.hostInfo = d1.hostInfo := by unfold DB.moveRequests; split <;> rfl
    have h3 : ∀ x : DB, x.onUpdatedShardInfo.hostInfo = x.hostInfo := by intro x; unfold DB.onUpdatedShardInfo; split <;> rfl
    rw [h3, h2]
    unfold DB.reportView at hv
    cases hu : d.image.update { nhi with lastTick := d.tick } with
    | panic w => simp [hu] at hv
    | ok image =>
      simp only [hu] at hv
      cases hv
      simp

/-- C09/C10: a round without requests is not a launch: it is accepted with count 0 and changes nothing -/
theorem empty_round_is_not_a_launch (d : DB) : d.applyRequests [] = .ok (d.mergeRequests [], 0) ∧
    (d.mergeRequests []).kv = d.kv ∧ (d.mergeRequests []).launchDeadline = d.launchDeadline ∧
    (d.mergeRequests []).requests = d.requests := by
  refine ⟨?_, rfl, rfl, ?_⟩
  · unfold DB.applyRequests isLaunchBatch
    simp
  · unfold DB.mergeRequests
    simp

/-- C04: the leader pass for one entry: a member of the (current or older) view that reports is flagged leader exactly
    when its report says so -/
theorem leader_flag_follows_report (mc : MultiShard) (ci : ShardInfo) (c : Shard) (n : Replica)
    (hf : mc.find? ci.shardId = some c) (hwf : (c.replicas.map (·.replicaId)).Nodup) (hv : ¬ c.cci > ci.cci)
    (hn : c.find? ci.replicaId = some n)
    (nhi : NodeHostInfo) (hone : nhi.shardInfo = [ci]) :
    ∃ c', (syncLeaderInfo mc nhi).find? ci.shardId = some c' ∧ c'.cci = c.cci ∧
      ∀ r ∈ c'.replicas, r.replicaId = ci.replicaId → r.isLeader = ci.isLeader := by
  unfold syncLeaderInfo
  rw [hone]
  simp only [List.foldl_cons, List.foldl_nil, hf, hv, if_false, hn]
  have hid : c.shardId = ci.shardId := (find?_mem mc ci.shardId c hf).2
  have hput : ∀ (c2 : Shard), c2.shardId = ci.shardId → (mc.put c2).find? ci.shardId = some c2 := by
    intro c2 h2
    unfold MultiShard.put MultiShard.find?
    simp [List.find?_cons, h2]
  have hnm := find?_some_mem c ci.replicaId n hn
  by_cases h1 : (!ci.isLeader && n.isLeader) = true
  · simp only [h1, if_true]
    refine ⟨_, hput _ hid, rfl, ?_⟩
    intro r hr hri
    simp only [List.mem_map] at hr
    obtain ⟨a, _, rfl⟩ := hr
    have hl : ci.isLeader = false := by
      simp only [Bool.and_eq_true, Bool.not_eq_true'] at h1; exact h1.1
    by_cases ha : (a.replicaId == ci.replicaId) = true
    · simp [ha, hl]
    · simp only [ha] at hri ⊢
      simp only [Bool.false_eq_true, if_false] at hri ⊢
      exact absurd (by simpa using hri : a.replicaId = ci.replicaId) (by simpa using ha)
  · simp only [h1]
    by_cases h2 : (ci.isLeader && !n.isLeader) = true
    · simp only [h2, if_true, Bool.false_eq_true, if_false]
      refine ⟨_, hput _ hid, rfl, ?_⟩
      intro r hr hri
      simp only [List.mem_map] at hr
      obtain ⟨a, _, rfl⟩ := hr
      have hl : ci.isLeader = true := by
        simp only [Bool.and_eq_true] at h2; exact h2.1
      simp only at hri ⊢
      rw [hl]; simpa using hri
    · simp only [h2, Bool.false_eq_true, if_false]
      refine ⟨c, hf, rfl, ?_⟩
      intro r hr hri
      -- nothing changed: ids are distinct, so `r` is `n`, whose flag already agrees with the report
      have hrn : c.find? r.replicaId = some r := find?_eq_some_of_mem c hwf r hr
      rw [hri, hn] at hrn
      cases hrn
      cases hl : ci.isLeader <;> cases hl2 : n.isLeader <;> simp [hl, hl2] at h1 h2 ⊢

#print axioms report_recorded_at_current_time
#print axioms empty_round_is_not_a_launch
#print axioms leader_flag_follows_report
end Drummer
