import DrummerVerif.Lemmas.C05H
/-! C05 / C01 building block: a report stamps the tick of every replica it lists that is a member of the view -/
namespace Drummer

/-- every member of a view that one of the entries `P` lists carries the tick `t` -/
def StampedBy (t : Nat) (P : List ShardInfo) (mc : MultiShard) : Prop :=
  ∀ c ∈ mc.shards, ∀ r ∈ c.replicas, (∃ ci ∈ P, ci.shardId = c.shardId ∧ ci.replicaId = r.replicaId) → r.tick = t

def UniqueShards (mc : MultiShard) : Prop := ∀ c ∈ mc.shards, ∀ c' ∈ mc.shards, c.shardId = c'.shardId → c = c'

theorem put_unique (mc : MultiShard) (c : Shard) (h : UniqueShards mc) : UniqueShards (mc.put c) := by
  intro x hx y hy hxy
  rcases (mem_put _ _ _).mp hx with rfl | ⟨hxm, hxs⟩ <;> rcases (mem_put _ _ _).mp hy with rfl | ⟨hym, hys⟩
  · rfl
  · exact absurd hxy.symm hys
  · exact absurd hxy hxs
  · exact h x hxm y hym hxy

/-- one iteration of `updateNodeTick` -/
def stampStep (nhi : NodeHostInfo) (mc : MultiShard) (ci : ShardInfo) : MultiShard :=
  match mc.find? ci.shardId with
  | some ec =>
    if ec.replicas.any (·.replicaId == ci.replicaId) then
      mc.put { ec with replicas := ec.replicas.map fun n =>
        if n.replicaId == ci.replicaId then { n with tick := nhi.lastTick } else n }
    else mc
  | none => mc

theorem updateNodeTick_eq (mc : MultiShard) (nhi : NodeHostInfo) :
    updateNodeTick mc nhi = nhi.shardInfo.foldl (stampStep nhi) mc := rfl

theorem stampStep_inv (nhi : NodeHostInfo) (done : List ShardInfo) (mc : MultiShard) (ci : ShardInfo)
    (hu : UniqueShards mc) (h : StampedBy nhi.lastTick done mc) :
    UniqueShards (stampStep nhi mc ci) ∧ StampedBy nhi.lastTick (done ++ [ci]) (stampStep nhi mc ci) := by
  unfold stampStep
  cases hf : mc.find? ci.shardId with
  | none =>
    refine ⟨hu, ?_⟩
    intro c hc r hr hex
    obtain ⟨x, hx, h1, h2⟩ := hex
    rcases List.mem_append.mp hx with hx | hx
    · exact h c hc r hr ⟨x, hx, h1, h2⟩
    · simp only [List.mem_singleton] at hx; subst hx
      have := List.find?_eq_none.mp hf c hc
      simp [h1] at this
  | some ec =>
    obtain ⟨hecm, hecs⟩ := find?_mem mc ci.shardId ec hf
    simp only
    split
    · refine ⟨put_unique mc _ hu, ?_⟩
      intro c hc r hr hex
      rcases (mem_put _ _ _).mp hc with rfl | ⟨hcm, hcs⟩
      · simp only [List.mem_map] at hr
        obtain ⟨r0, hr0, rfl⟩ := hr
        by_cases hid : r0.replicaId = ci.replicaId
        · simp [hid]
        · have hb : (r0.replicaId == ci.replicaId) = false := by simpa using hid
          simp only [hb, Bool.false_eq_true, if_false] at hex ⊢
          obtain ⟨x, hx, h1, h2⟩ := hex
          rcases List.mem_append.mp hx with hx | hx
          · exact h ec hecm r0 hr0 ⟨x, hx, h1, h2⟩
          · simp only [List.mem_singleton] at hx; subst hx; exact absurd h2.symm hid
      · obtain ⟨x, hx, h1, h2⟩ := hex
        rcases List.mem_append.mp hx with hx | hx
        · exact h c hcm r hr ⟨x, hx, h1, h2⟩
        · simp only [List.mem_singleton] at hx; subst hx
          exact absurd (h1.symm.trans hecs.symm) (by simpa using hcs)
    · rename_i hany
      refine ⟨hu, ?_⟩
      intro c hc r hr hex
      obtain ⟨x, hx, h1, h2⟩ := hex
      rcases List.mem_append.mp hx with hx | hx
      · exact h c hc r hr ⟨x, hx, h1, h2⟩
      · simp only [List.mem_singleton] at hx; subst hx
        have hce : c = ec := hu c hc ec hecm (h1.symm.trans hecs.symm)
        subst hce
        exact absurd (List.any_eq_true.mpr ⟨r, hr, by simp [h2]⟩) hany

theorem stampFold_inv (nhi : NodeHostInfo) : ∀ (rest done : List ShardInfo) (mc : MultiShard),
    UniqueShards mc → StampedBy nhi.lastTick done mc →
    UniqueShards (rest.foldl (stampStep nhi) mc) ∧ StampedBy nhi.lastTick (done ++ rest) (rest.foldl (stampStep nhi) mc) := by
  intro rest
  induction rest with
  | nil => intro done mc hu h; exact ⟨hu, by simpa using h⟩
  | cons ci rest ih =>
    intro done mc hu h
    simp only [List.foldl_cons]
    obtain ⟨hu1, h1⟩ := stampStep_inv nhi done mc ci hu h
    have := ih (done ++ [ci]) _ hu1 h1
    simpa using this

/-- after `updateNodeTick`, every member of a view that the report lists carries the report's tick -/
theorem updateNodeTick_stamped (mc : MultiShard) (nhi : NodeHostInfo) (hu : UniqueShards mc) :
    UniqueShards (updateNodeTick mc nhi) ∧ StampedBy nhi.lastTick nhi.shardInfo (updateNodeTick mc nhi) := by
  rw [updateNodeTick_eq]
  have := stampFold_inv nhi nhi.shardInfo [] mc hu (fun _ _ _ _ hex => by obtain ⟨_, hx, _⟩ := hex; simp at hx)
  simpa using this

#print axioms updateNodeTick_stamped

theorem doUpdate1_unique (t : Nat) (mc mc' : MultiShard) (ci : ShardInfo) (k : Bool) (hu : UniqueShards mc)
    (h : doUpdate1 t mc ci = .ok (mc', k)) : UniqueShards mc' := by
  unfold doUpdate1 at h
  cases hf : mc.find? ci.shardId with
  | none =>
    simp only [hf] at h
    split at h
    · cases h; exact hu
    · cases h; exact put_unique mc _ hu
  | some ec =>
    simp only [hf] at h
    split at h
    · cases h; exact hu
    · cases hs : ec.sync ci t with
      | panic w => simp [hs] at h
      | ok p =>
        obtain ⟨rej, ec'⟩ := p
        simp only [hs] at h
        cases h
        exact put_unique mc _ hu

theorem doUpdateLoop_unique (t : Nat) : ∀ (infos : List ShardInfo) (mc mc' : MultiShard) (acc out : List ShardInfo),
    UniqueShards mc → doUpdateLoop t mc infos acc = .ok (mc', out) → UniqueShards mc' := by
  intro infos
  induction infos with
  | nil => intro mc mc' acc out hu h; unfold doUpdateLoop at h; cases h; exact hu
  | cons ci rest ih =>
    intro mc mc' acc out hu h
    unfold doUpdateLoop at h
    cases h1 : doUpdate1 t mc ci with
    | panic w => simp [h1] at h
    | ok p =>
      obtain ⟨mc1, k⟩ := p
      simp only [h1] at h
      exact ih mc1 mc' _ out (doUpdate1_unique t mc mc1 ci k hu h1) h

theorem syncLeaderInfo_unique (nhi : NodeHostInfo) : ∀ (mc : MultiShard), UniqueShards mc →
    UniqueShards (syncLeaderInfo mc nhi) := by
  unfold syncLeaderInfo
  induction nhi.shardInfo with
  | nil => intro mc h; exact h
  | cons ci rest ih =>
    intro mc h
    simp only [List.foldl_cons]
    apply ih
    cases hf : mc.find? ci.shardId with
    | none => simpa using h
    | some ec =>
      simp only
      split
      · exact h
      · split
        · exact h
        · split
          · exact put_unique mc _ h
          · split
            · exact put_unique mc _ h
            · exact h

/-- the stamped-predicate of one shard is closed under the rewrites `update` applies after its loop -/
theorem stamped_touch (t : Nat) (P : List ShardInfo) (c : Shard) (f : Replica → Replica) (hf : Touch t f)
    (hc : ∀ r ∈ c.replicas, (∃ ci ∈ P, ci.shardId = c.shardId ∧ ci.replicaId = r.replicaId) → r.tick = t) :
    ∀ r ∈ ({ c with replicas := c.replicas.map f } : Shard).replicas,
      (∃ ci ∈ P, ci.shardId = c.shardId ∧ ci.replicaId = r.replicaId) → r.tick = t := by
  intro r hr hex
  simp only [List.mem_map] at hr
  obtain ⟨r0, hr0, rfl⟩ := hr
  rcases hf r0 with e | e | ⟨b, e⟩
  · rw [e] at hex ⊢; exact hc r0 hr0 hex
  · rw [e]
  · rw [e] at hex ⊢; exact hc r0 hr0 hex

/-- C05 / C01: after a report has been processed, every replica it lists that is a member of its shard's view
    carries the report's tick — it is healthy *now*, whatever it was before -/
theorem update_stamps (mc mc' : MultiShard) (nhi : NodeHostInfo) (hu : UniqueShards mc) (h : mc.update nhi = .ok mc') :
    UniqueShards mc' ∧ StampedBy nhi.lastTick nhi.shardInfo mc' := by
  unfold MultiShard.update at h
  cases hl : doUpdateLoop nhi.lastTick mc nhi.shardInfo [] with
  | panic w => simp [hl, bind] at h
  | ok p =>
    obtain ⟨mc1, toKill⟩ := p
    simp only [hl, bind, pure] at h
    cases h
    have hu1 := doUpdateLoop_unique nhi.lastTick nhi.shardInfo mc mc1 [] toKill hu hl
    obtain ⟨hu2, hst⟩ := updateNodeTick_stamped mc1 nhi hu1
    refine ⟨syncLeaderInfo_unique nhi _ hu2, ?_⟩
    exact syncLeaderInfo_inv'
      (fun c => ∀ r ∈ c.replicas, (∃ ci ∈ nhi.shardInfo, ci.shardId = c.shardId ∧ ci.replicaId = r.replicaId) → r.tick = nhi.lastTick)
      nhi nhi.lastTick (fun c f hf hc => stamped_touch nhi.lastTick nhi.shardInfo c f hf hc) _ hst

/-- a replica stamped with the current tick is healthy: neither failed nor waiting (for a positive clock) -/
theorem stamped_is_ok (r : Replica) (now : Nat) (hpos : 0 < now) (hlt : now < 18446744073709551616) (h : r.tick = now) :
    r.failed now = false ∧ r.waiting now = false := by
  unfold Replica.waiting Replica.failed entityFailed usub64 nodeHostTTL
  have h0 : (r.tick == 0) = false := by rw [h]; simp; omega
  simp only [h0, Bool.false_eq_true, if_false, Bool.false_and, and_true]
  rw [h]
  have : (now + 18446744073709551616 - now) % 18446744073709551616 = 0 := by
    have : now + 18446744073709551616 - now = 18446744073709551616 := by omega
    rw [this]
  simp [this]

#print axioms update_stamps
#print axioms stamped_is_ok
end Drummer
