import DrummerVerif.Lemmas.Stamp
/-! C05 building block (⇒ direction): a report leaves the tick of every replica it does not list alone -/
namespace Drummer

/-- same replica, same liveness record -/
def SameRec (r1 r' : Replica) : Prop := r1.replicaId = r'.replicaId ∧ r1.tick = r'.tick ∧ r1.firstObserved = r'.firstObserved

/-- `r'` (in a view of shard `s`) has the record it had in `ref`, or is new: never reported, first observed at `t` -/
def Src (ref : MultiShard) (t : Nat) (s : Nat) (r' : Replica) : Prop :=
  (∃ c ∈ ref.shards, c.shardId = s ∧ ∃ r ∈ c.replicas, SameRec r r') ∨ (r'.tick = 0 ∧ r'.firstObserved = t)

theorem src_sameRec (ref : MultiShard) (t s : Nat) (r1 r' : Replica) (h : SameRec r1 r') (hs : Src ref t s r1) : Src ref t s r' := by
  obtain ⟨e1, e2, e3⟩ := h
  rcases hs with ⟨c, hc, hcs, r, hr, f1, f2, f3⟩ | ⟨g1, g2⟩
  · exact Or.inl ⟨c, hc, hcs, r, hr, f1.trans e1, f2.trans e2, f3.trans e3⟩
  · exact Or.inr ⟨e2 ▸ g1, e3 ▸ g2⟩

/-- phase 1 (the `doUpdate` loop): every replica of every view keeps its record or is new -/
theorem loop_src (mc mc' : MultiShard) (t : Nat) (infos acc out : List ShardInfo)
    (h : doUpdateLoop t mc infos acc = .ok (mc', out)) :
    ∀ c ∈ mc'.shards, ∀ r' ∈ c.replicas, Src mc t c.shardId r' := by
  apply doUpdateLoop_inv (fun c => ∀ r' ∈ c.replicas, Src mc t c.shardId r') t infos mc mc' acc out
  · intro ci _ _ r' hr'
    unfold getShard at hr'
    simp only [List.mem_map] at hr'
    obtain ⟨p, _, rfl⟩ := hr'
    exact Or.inr ⟨rfl, rfl⟩
  · intro ci _ _ c rej c' hid hq hs
    unfold Shard.sync at hs
    by_cases h1 : c.cci > ci.cci
    · simp only [h1, if_true] at hs; cases hs; exact hq
    · simp only [h1, if_false] at hs
      split at hs
      · cases hs
      · split at hs
        · cases hs
        · split at hs
          · cases hs
          · split at hs
            · cases hs
            · cases hs
              intro r' hr'
              simp only [List.mem_append, List.mem_filter, List.mem_map] at hr'
              rcases hr' with ⟨hm, _⟩ | ⟨p, _, rfl⟩
              · exact hq r' hm
              · exact Or.inr ⟨rfl, rfl⟩
  · intro c hc r' hr'
    exact Or.inl ⟨c, hc, rfl, r', hr', rfl, rfl, rfl⟩
  · exact h

/-- phase 2 invariant: a replica that none of the processed entries lists still has its record from `ref` -/
def KeptBy (ref : MultiShard) (done : List ShardInfo) (mc : MultiShard) : Prop :=
  ∀ c ∈ mc.shards, ∀ r' ∈ c.replicas, (∃ ci ∈ done, ci.shardId = c.shardId ∧ ci.replicaId = r'.replicaId) ∨
    ∃ c1 ∈ ref.shards, c1.shardId = c.shardId ∧ ∃ r1 ∈ c1.replicas, SameRec r1 r'

theorem stampStep_kept (nhi : NodeHostInfo) (ref : MultiShard) (done : List ShardInfo) (mc : MultiShard) (ci : ShardInfo)
    (h : KeptBy ref done mc) : KeptBy ref (done ++ [ci]) (stampStep nhi mc ci) := by
  have hmono : ∀ c ∈ mc.shards, ∀ r' ∈ c.replicas,
      (∃ x ∈ done ++ [ci], x.shardId = c.shardId ∧ x.replicaId = r'.replicaId) ∨
      ∃ c1 ∈ ref.shards, c1.shardId = c.shardId ∧ ∃ r1 ∈ c1.replicas, SameRec r1 r' := by
    intro c hc r' hr'
    rcases h c hc r' hr' with ⟨x, hx, h1, h2⟩ | hk
    · exact Or.inl ⟨x, by simp [hx], h1, h2⟩
    · exact Or.inr hk
  unfold stampStep
  cases hf : mc.find? ci.shardId with
  | none => exact hmono
  | some ec =>
    obtain ⟨hecm, hecs⟩ := find?_mem mc ci.shardId ec hf
    simp only
    split
    · intro c hc r' hr'
      rcases (mem_put _ _ _).mp hc with rfl | ⟨hcm, _⟩
      · simp only [List.mem_map] at hr'
        obtain ⟨r0, hr0, rfl⟩ := hr'
        by_cases hid : r0.replicaId = ci.replicaId
        · left; exact ⟨ci, by simp, hecs.symm, by simp [hid]⟩
        · have hb : (r0.replicaId == ci.replicaId) = false := by simpa using hid
          simp only [hb, Bool.false_eq_true, if_false]
          exact hmono ec hecm r0 hr0
      · exact hmono c hcm r' hr'
    · exact hmono

theorem stampFold_kept (nhi : NodeHostInfo) (ref : MultiShard) : ∀ (rest done : List ShardInfo) (mc : MultiShard),
    KeptBy ref done mc → KeptBy ref (done ++ rest) (rest.foldl (stampStep nhi) mc) := by
  intro rest
  induction rest with
  | nil => intro done mc h; simpa using h
  | cons ci rest ih =>
    intro done mc h
    simp only [List.foldl_cons]
    have := ih (done ++ [ci]) _ (stampStep_kept nhi ref done mc ci h)
    simpa using this

/-- phase 3 only flips leader flags -/
def LeaderOnly (f : Replica → Replica) : Prop := ∀ r, f r = r ∨ ∃ b, f r = { r with isLeader := b }

theorem syncLeaderInfo_inv'' (Q : Shard → Prop) (nhi : NodeHostInfo)
    (hmap : ∀ (c : Shard) (f : Replica → Replica), LeaderOnly f → Q c → Q { c with replicas := c.replicas.map f }) :
    ∀ (mc : MultiShard), (∀ c ∈ mc.shards, Q c) → ∀ c ∈ (syncLeaderInfo mc nhi).shards, Q c := by
  unfold syncLeaderInfo
  induction nhi.shardInfo with
  | nil => intro mc h; exact h
  | cons ci rest ih =>
    intro mc h
    simp only [List.foldl_cons]
    apply ih
    cases hf : mc.find? ci.shardId with
    | none => simpa using h
    | some ec =>
      simp only
      split
      · exact h
      · split
        · exact h
        · split
          · intro c hc
            rcases (mem_put _ _ _).mp hc with rfl | ⟨hm, _⟩
            · exact hmap ec _ (fun r => by split; exact Or.inr ⟨_, rfl⟩; exact Or.inl rfl) (h ec (find?_mem _ _ _ hf).1)
            · exact h c hm
          · split
            · intro c hc
              rcases (mem_put _ _ _).mp hc with rfl | ⟨hm, _⟩
              · exact hmap ec _ (fun r => Or.inr ⟨_, rfl⟩) (h ec (find?_mem _ _ _ hf).1)
              · exact h c hm
            · exact h

/-- C05 (⇒ direction), one report: a replica of the new image that the report does not list has exactly the tick and
    first-observed stamp it had before the report, or is a member first seen in this report (tick 0) — a report never
    refreshes anybody it does not list -/
theorem update_unlisted (mc mc' : MultiShard) (nhi : NodeHostInfo) (h : mc.update nhi = .ok mc') :
    ∀ c ∈ mc'.shards, ∀ r' ∈ c.replicas,
      (¬ ∃ ci ∈ nhi.shardInfo, ci.shardId = c.shardId ∧ ci.replicaId = r'.replicaId) → Src mc nhi.lastTick c.shardId r' := by
  unfold MultiShard.update at h
  cases hl : doUpdateLoop nhi.lastTick mc nhi.shardInfo [] with
  | panic w => simp [hl, bind] at h
  | ok p =>
    obtain ⟨mc1, toKill⟩ := p
    simp only [hl, bind, pure] at h
    cases h
    have h1 := loop_src mc mc1 nhi.lastTick nhi.shardInfo [] toKill hl
    have h2 : KeptBy mc1 nhi.shardInfo (updateNodeTick mc1 nhi) := by
      rw [updateNodeTick_eq]
      have := stampFold_kept nhi mc1 nhi.shardInfo [] mc1
        (fun c hc r' hr' => Or.inr ⟨c, hc, rfl, r', hr', rfl, rfl, rfl⟩)
      simpa using this
    have hmap : ∀ (c : Shard) (f : Replica → Replica), LeaderOnly f →
        (∀ r' ∈ c.replicas, (∃ ci ∈ nhi.shardInfo, ci.shardId = c.shardId ∧ ci.replicaId = r'.replicaId) ∨
          ∃ c1 ∈ mc1.shards, c1.shardId = c.shardId ∧ ∃ r1 ∈ c1.replicas, SameRec r1 r') →
        (∀ r' ∈ ({ c with replicas := c.replicas.map f } : Shard).replicas,
          (∃ ci ∈ nhi.shardInfo, ci.shardId = c.shardId ∧ ci.replicaId = r'.replicaId) ∨
          ∃ c1 ∈ mc1.shards, c1.shardId = c.shardId ∧ ∃ r1 ∈ c1.replicas, SameRec r1 r') := by
      intro c f hf hc r' hr'
      simp only [List.mem_map] at hr'
      obtain ⟨r0, hr0, rfl⟩ := hr'
      rcases hf r0 with e | ⟨b, e⟩
      · rw [e]; exact hc r0 hr0
      · rw [e]; exact hc r0 hr0
    intro c hc r' hr' hnot
    have key := fun (mcx : MultiShard) (hsh : mcx.shards = (updateNodeTick mc1 nhi).shards) =>
      syncLeaderInfo_inv''
        (fun c => ∀ r' ∈ c.replicas, (∃ ci ∈ nhi.shardInfo, ci.shardId = c.shardId ∧ ci.replicaId = r'.replicaId) ∨
          ∃ c1 ∈ mc1.shards, c1.shardId = c.shardId ∧ ∃ r1 ∈ c1.replicas, SameRec r1 r')
        nhi hmap mcx (fun x hx => h2 x (hsh ▸ hx))
    have h3 := key _ (by rfl) c hc
    rcases h3 r' hr' with hlisted | ⟨c1, hc1, hs1, r1, hr1, hsame⟩
    · exact absurd hlisted hnot
    · exact src_sameRec mc nhi.lastTick c.shardId r1 r' hsame (hs1 ▸ h1 c1 hc1 r1 hr1)

#print axioms update_unlisted
end Drummer
