import DrummerVerif.Model.Wgl
namespace WGL
variable {S I O : Type} [DecidableEq S]

def remOf (H : List Entry) (L : List Nat) : List Entry := H.filter (fun e => !L.contains e.id)

theorem lift_remOf (H : List Entry) (L : List Nat) (i : Nat) :
    lift (remOf H L) i = remOf H (i :: L) := by
  unfold lift remOf
  rw [List.filter_filter]
  congr 1
  funext e
  by_cases h1 : e.id = i <;> by_cases h2 : L.contains e.id <;> simp_all

theorem remOf_nil (H : List Entry) : remOf H [] = H := by
  unfold remOf
  induction H with
  | nil => rfl
  | cons a t ih => simp [List.filter_cons] at ih ⊢

theorem setEq_mem {a b : List Nat} (h : setEq a b = true) (x : Nat) : x ∈ a ↔ x ∈ b := by
  simp [setEq, List.all_eq_true] at h
  exact ⟨fun hx => h.1 x hx, fun hx => h.2 x hx⟩

theorem remOf_congr (H : List Entry) {a b : List Nat} (h : setEq a b = true) :
    remOf H a = remOf H b := by
  unfold remOf
  apply List.filter_congr
  intro e _
  have := setEq_mem h e.id
  by_cases h1 : e.id ∈ a <;> simp_all

theorem not_mem_of_mem_remOf {H : List Entry} {L : List Nat} {e : Entry} (h : e ∈ remOf H L) :
    e.id ∉ L := by
  unfold remOf at h
  simp at h
  exact h.2

theorem Lin.inv {m : Model S I O} {inp : Nat → I} {out : Nat → O} {rem : List Entry} {st : S}
    (h : Lin m inp out rem st) (hne : rem ≠ []) :
    ∃ i, i ∈ minCalls rem ∧ (m.step st (inp i) (out i)).1 = true ∧
      Lin m inp out (lift rem i) (m.step st (inp i) (out i)).2 := by
  cases h with
  | nil => exact absurd rfl hne
  | step _ _ i h1 h2 h3 => exact ⟨i, h1, h2, h3⟩

theorem minCalls_append_calls (pre suf : List Entry) (hpre : ∀ x ∈ pre, x.kind = .call) (i : Nat)
    (h : i ∈ minCalls (pre ++ suf)) : (∃ x ∈ pre, x.id = i) ∨ i ∈ minCalls suf := by
  induction pre with
  | nil => right; simpa using h
  | cons p pre ih =>
    have hp : p.kind = .call := hpre p (by simp)
    simp only [List.cons_append, minCalls, hp, List.mem_cons] at h
    rcases h with h | h
    · left; exact ⟨p, by simp, h.symm⟩
    · rcases ih (fun x hx => hpre x (by simp [hx])) h with ⟨x, hx, hxi⟩ | h'
      · left; exact ⟨x, by simp [hx], hxi⟩
      · right; exact h'

theorem length_lift_lt {rem : List Entry} {e : Entry} (h : e ∈ rem) :
    (lift rem e.id).length < rem.length := by
  unfold lift
  apply List.length_filter_lt_length_iff_exists.mpr
  exact ⟨e, h, by simp⟩

/-- a candidate id cannot start a linearization of `rem` from `st` -/
def NoGo (m : Model S I O) (inp : Nat → I) (out : Nat → O) (rem : List Entry) (st : S) (i : Nat) : Prop :=
  ¬ ((m.step st (inp i) (out i)).1 = true ∧ Lin m inp out (lift rem i) (m.step st (inp i) (out i)).2)

def DeadE (m : Model S I O) (inp : Nat → I) (out : Nat → O) (H : List Entry) (x : List Nat × S) : Prop :=
  ¬ Lin m inp out (remOf H x.1) x.2

def Inv (m : Model S I O) (inp : Nat → I) (out : Nat → O) (H : List Entry) (c : Cache S) (lin : List Nat) : Prop :=
  ∀ x ∈ c, (∀ y ∈ x.1, y ∈ lin) ∨ DeadE m inp out H x

mutual
theorem dfs_complete (m : Model S I O) (inp : Nat → I) (out : Nat → O) (H : List Entry) :
    ∀ (fuel : Nat) (rem : List Entry) (st : S) (lin : List Nat) (c : Cache S),
      rem = remOf H lin → rem.length ≤ fuel → Inv m inp out H c lin →
      (dfs m inp out fuel rem st lin c).1 = false →
      ¬ Lin m inp out rem st ∧ ∀ x ∈ (dfs m inp out fuel rem st lin c).2, x ∈ c ∨ DeadE m inp out H x
  | 0, rem, st, lin, c => by
    intro _ hlen _ h
    have : rem = [] := by cases rem <;> simp_all
    subst this
    simp [dfs] at h
  | fuel+1, rem, st, lin, c => by
    intro hrem hlen hinv h
    unfold dfs at h ⊢
    by_cases hr : rem.isEmpty
    · simp [hr] at h
    · simp only [hr] at h ⊢
      have hne : rem ≠ [] := by intro h0; subst h0; simp at hr
      exact scan_complete m inp out H fuel rem [] rem st lin c hrem (by simp) hne
        (by omega) hinv (by simp) h
theorem scan_complete (m : Model S I O) (inp : Nat → I) (out : Nat → O) (H : List Entry) :
    ∀ (fuel : Nat) (rem pre suf : List Entry) (st : S) (lin : List Nat) (c : Cache S),
      rem = remOf H lin → rem = pre ++ suf → rem ≠ [] → rem.length ≤ fuel + 1 →
      Inv m inp out H c lin →
      (∀ x ∈ pre, x.kind = .call ∧ NoGo m inp out rem st x.id) →
      (scan m inp out fuel rem suf st lin c).1 = false →
      ¬ Lin m inp out rem st ∧ ∀ x ∈ (scan m inp out fuel rem suf st lin c).2, x ∈ c ∨ DeadE m inp out H x
  | fuel, rem, pre, [], st, lin, c => by
    intro _ hsplit hne _ _ hpre _
    simp only [scan]
    refine ⟨?_, fun x hx => Or.inl hx⟩
    intro hl
    obtain ⟨i, hi, hok, hlin⟩ := hl.inv hne
    rw [hsplit] at hi
    rcases minCalls_append_calls pre [] (fun x hx => (hpre x hx).1) i hi with ⟨x, hx, hxi⟩ | h'
    · exact (hpre x hx).2 (hxi ▸ ⟨hok, hlin⟩)
    · simp [minCalls] at h'
  | fuel, rem, pre, e :: suf, st, lin, c => by
    intro hrem hsplit hne hlen hinv hpre h
    unfold scan at h ⊢
    cases hk : e.kind with
    | ret =>
      simp only [hk]
      refine ⟨?_, fun x hx => Or.inl hx⟩
      intro hl
      obtain ⟨i, hi, hok, hlin⟩ := hl.inv hne
      rw [hsplit] at hi
      rcases minCalls_append_calls pre (e :: suf) (fun x hx => (hpre x hx).1) i hi with ⟨x, hx, hxi⟩ | h'
      · exact (hpre x hx).2 (hxi ▸ ⟨hok, hlin⟩)
      · simp [minCalls, hk] at h'
    | call =>
      simp only [hk] at h ⊢
      have hsplit' : rem = (pre ++ [e]) ++ suf := by simp [hsplit]
      have hemem : e ∈ rem := by rw [hsplit]; simp
      have henot : e.id ∉ lin := not_mem_of_mem_remOf (hrem ▸ hemem)
      split
      · rename_i hcond
        rw [if_pos hcond] at h
        simp only [Bool.and_eq_true, Bool.not_eq_eq_eq_not, Bool.not_true] at hcond
        -- explored child
        have hchildInv : Inv m inp out H ((e.id :: lin, (m.step st (inp e.id) (out e.id)).2) :: c) (e.id :: lin) := by
          intro x hx
          rcases List.mem_cons.mp hx with hx | hx
          · left; subst hx; intro y hy; exact hy
          · rcases hinv x hx with h1 | h1
            · left; intro y hy; exact List.mem_cons_of_mem _ (h1 y hy)
            · right; exact h1
        have hchildRem : lift rem e.id = remOf H (e.id :: lin) := by rw [hrem, lift_remOf]
        have hchildLen : (lift rem e.id).length ≤ fuel := by
          have := length_lift_lt hemem; omega
        split
        · rename_i hr
          rw [if_pos hr] at h
          simp at h
        · rename_i hr
          rw [if_neg hr] at h
          have hr' : (dfs m inp out fuel (lift rem e.id) (m.step st (inp e.id) (out e.id)).2 (e.id :: lin)
              ((e.id :: lin, (m.step st (inp e.id) (out e.id)).2) :: c)).1 = false := by
            simpa using hr
          obtain ⟨hnolin, hcache⟩ := dfs_complete m inp out H fuel _ _ _ _ hchildRem hchildLen hchildInv hr'
          -- invariant for the continued scan
          have hinv' : Inv m inp out H (dfs m inp out fuel (lift rem e.id) (m.step st (inp e.id) (out e.id)).2 (e.id :: lin)
              ((e.id :: lin, (m.step st (inp e.id) (out e.id)).2) :: c)).2 lin := by
            intro x hx
            rcases hcache x hx with h1 | h1
            · rcases List.mem_cons.mp h1 with h2 | h2
              · right; subst h2; unfold DeadE; simpa [← hchildRem] using hnolin
              · exact hinv x h2
            · right; exact h1
          have hpre' : ∀ x ∈ pre ++ [e], x.kind = .call ∧ NoGo m inp out rem st x.id := by
            intro x hx
            rcases List.mem_append.mp hx with h1 | h1
            · exact hpre x h1
            · simp at h1; subst h1
              exact ⟨hk, fun hh => hnolin hh.2⟩
          obtain ⟨hres, hc⟩ := scan_complete m inp out H fuel rem (pre ++ [e]) suf st lin _ hrem hsplit' hne hlen hinv' hpre' h
          refine ⟨hres, fun x hx => ?_⟩
          rcases hc x hx with h1 | h1
          · rcases hcache x h1 with h2 | h2
            · rcases List.mem_cons.mp h2 with h3 | h3
              · right; subst h3; unfold DeadE; simpa [← hchildRem] using hnolin
              · left; exact h3
            · right; exact h2
          · right; exact h1
      · rename_i hcond
        rw [if_neg hcond] at h
        -- either step failed or cache hit: candidate is NoGo
        have hnogo : NoGo m inp out rem st e.id := by
          intro hh
          apply hcond
          simp only [Bool.and_eq_true, Bool.not_eq_eq_eq_not, Bool.not_true]
          refine ⟨hh.1, ?_⟩
          -- show not in cache
          cases hcc : cacheContains c (e.id :: lin) (m.step st (inp e.id) (out e.id)).2 with
          | false => rfl
          | true =>
            exfalso
            simp only [cacheContains, List.any_eq_true, Bool.and_eq_true, decide_eq_true_eq] at hcc
            obtain ⟨x, hx, hset, hst⟩ := hcc
            rcases hinv x hx with h1 | h1
            · have : e.id ∈ x.1 := (setEq_mem hset e.id).mpr (by simp)
              exact henot (h1 _ this)
            · apply h1
              rw [remOf_congr H hset, ← lift_remOf, ← hrem, hst]
              exact hh.2
        have hpre' : ∀ x ∈ pre ++ [e], x.kind = .call ∧ NoGo m inp out rem st x.id := by
          intro x hx
          rcases List.mem_append.mp hx with h1 | h1
          · exact hpre x h1
          · simp at h1; subst h1; exact ⟨hk, hnogo⟩
        exact scan_complete m inp out H fuel rem (pre ++ [e]) suf st lin c hrem hsplit' hne hlen hinv hpre' h
end

/-- exactness of the memoised search w.r.t. the inductive spec -/
theorem check_iff (m : Model S I O) (inp : Nat → I) (out : Nat → O) (H : List Entry) :
    (dfs m inp out (H.length + 1) H m.init [] []).1 = true ↔ Lin m inp out H m.init := by
  constructor
  · exact dfs_sound m inp out _ _ _ _ _
  · intro hl
    cases hres : (dfs m inp out (H.length + 1) H m.init [] []).1 with
    | true => rfl
    | false =>
      have hrem : H = remOf H [] := (remOf_nil H).symm
      exact absurd hl (dfs_complete m inp out H _ H m.init [] [] hrem (by omega) (by intro x hx; simp at hx) hres).1

#print axioms check_iff
end WGL
