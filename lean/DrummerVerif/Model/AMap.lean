/-! association-list maps with lookup lemmas (core only) -/
namespace AMap
variable {κ ν : Type} [DecidableEq κ]

def get (m : List (κ × ν)) (k : κ) : Option ν := (m.find? (fun e => decide (e.1 = k))).map (·.2)
def del (m : List (κ × ν)) (k : κ) : List (κ × ν) := m.filter (fun e => decide (e.1 ≠ k))
def put (m : List (κ × ν)) (k : κ) (v : ν) : List (κ × ν) := (k, v) :: del m k
def keys (m : List (κ × ν)) : List κ := m.map (·.1)
def has (m : List (κ × ν)) (k : κ) : Bool := (get m k).isSome

@[simp] theorem get_nil (k : κ) : get ([] : List (κ × ν)) k = none := rfl

@[simp] theorem get_del (m : List (κ × ν)) (k k' : κ) :
    get (del m k) k' = if k = k' then none else get m k' := by
  unfold get del
  rw [List.find?_filter]
  by_cases h : k = k'
  · subst h
    simp only [if_true, Option.map_eq_none_iff, List.find?_eq_none]
    intro x _; simp
  · simp only [h, if_false]
    congr 2
    funext a
    by_cases h2 : a.1 = k'
    · have : ¬ a.1 = k := fun hh => h (hh ▸ h2)
      simp [h2, this]
      intro hh; exact absurd hh.symm h
    · simp [h2]

@[simp] theorem get_put (m : List (κ × ν)) (k k' : κ) (v : ν) :
    get (put m k v) k' = if k = k' then some v else get m k' := by
  by_cases h : k = k'
  · simp [put, get, List.find?, h]
  · have := get_del m k k'
    simp only [h, if_false] at this ⊢
    rw [← this]
    simp [put, get, List.find?, h]

theorem keys_del_nodup (m : List (κ × ν)) (k : κ) (h : (keys m).Nodup) : (keys (del m k)).Nodup := by
  unfold keys del at *
  exact h.sublist (List.Sublist.map _ List.filter_sublist)

theorem not_mem_keys_del (m : List (κ × ν)) (k : κ) : k ∉ keys (del m k) := by
  unfold keys del
  simp

theorem keys_put_nodup (m : List (κ × ν)) (k : κ) (v : ν) (h : (keys m).Nodup) : (keys (put m k v)).Nodup := by
  unfold put
  show (k :: keys (del m k)).Nodup
  exact List.nodup_cons.mpr ⟨not_mem_keys_del m k, keys_del_nodup m k h⟩

end AMap
