import DrummerVerif.Model.Db
/-! M-AGENT: what the NodeHost agent (client/nodehost.go) reports and how it dispatches received requests -/
namespace Drummer

/-- client/nodehost.go:125-129: details are left out iff Drummer's advertised version is at least the local one
    and the replica is not pending -/
def reportIncomplete (advertised : Option Nat) (localCci : Nat) (pending : Bool) : Bool :=
  match advertised with
  | some k => decide (k ≥ localCci) && !pending
  | none => false

/-- one replica hosted by the NodeHost, as `GetNodeHostInfo` describes it -/
structure LocalShard where
  shardId : Nat
  replicaId : Nat
  cci : Nat
  isLeader : Bool := false
  pending : Bool := false
  members : List (Nat × Addr) := []

def defaultRegion : String := "default-region"

/-- `SendNodeHostInfo`: the report built from the local NodeHost info and the membership versions Drummer advertises
    (`GetShardConfigChangeIndexList`) -/
def agentReport (addr api : String) (locals : List LocalShard) (adv : List (Nat × Nat)) (logIncluded : Bool)
    (log : List LogInfo) : NodeHostInfo :=
  { raftAddress := addr, rpcAddress := api, region := defaultRegion, plogIncluded := logIncluded, plogInfo := log,
    shardIdList := locals.map (·.shardId),
    shardInfo := locals.map fun l =>
      let inc := reportIncomplete ((adv.find? (·.1 == l.shardId)).map (·.2)) l.cci l.pending
      { shardId := l.shardId, replicaId := l.replicaId, isLeader := l.isLeader, cci := l.cci, incomplete := inc,
        pending := l.pending, replicas := if inc then [] else l.members } }

/-- `HandleMasterRequests`: one worker per shard id, each handling the requests of its shard in arrival order -/
def dispatch (reqs : List Request) : List (Nat × List Request) :=
  (reqs.map (·.shardId)).eraseDups.map fun s => (s, reqs.filter (·.shardId == s))

/-- `handleInstantiateRequest` (client/nodehost.go:376-443): what a CREATE request does, given its `Join` / `Restore`
    flags and whether the NodeHost already holds data of the replica -/
inductive InstOutcome
  | start (join : Bool)   -- StartReplica with this join flag
  | ignore                -- the request is dropped
  | panic                 -- the agent crashes
  deriving Repr, DecidableEq

def instantiate (join restore hasInfo : Bool) : InstOutcome :=
  match join, restore with
  | true, false => .start true                       -- join: a warning when data exists, the replica is started anyway
  | false, true => if hasInfo then .start false else .ignore
  | false, false => if hasInfo then .panic else .start false
  | true, true => .panic

def InstOutcome.started : InstOutcome → Bool
  | .start _ => true
  | _ => false

end Drummer
