import DrummerVerif.Model.Db
/-! M-API: the Drummer service (server.go) as a front-end of M-DB. Every call is the command(s) / query it
    proposes or reads, exactly as server.go maps them; SubmitChange and SetRegions validate their argument first
    (repaired, F-C17). dragonboat's `SyncPropose` / `SyncRead` are "apply / look up at one point". -/
namespace Drummer

inductive ApiOut
  | code (c : Nat)            -- ChangeResponse code decided by the DB (0 OK, 1 SHARD_EXIST, 2 BOOTSTRAPPED)
  | invalidArgument           -- refused by the service, nothing proposed
  | crashed (why : String)    -- the replicated DB panicked while applying the proposed command
  deriving Repr, DecidableEq

def regionsKey : Bytes := "regions-key".toUTF8.toList
def bootRec : KVRec := { key := bootstrappedKey, value := trueValue, finalized := true }
def regionsRec (enc : Bytes) : KVRec := { key := regionsKey, value := enc, finalized := true }
theorem bootRec_key : bootRec.key.isEmpty = false := by decide +kernel
theorem bootRec_val : bootRec.value.isEmpty = false := by decide +kernel
theorem regionsKey_ne : regionsKey.isEmpty = false := by decide +kernel

/-- SubmitChange (repaired: validates before proposing) -/
def apiSubmitChange (d : DB) (c : ShardDef) : ApiOut × DB :=
  if c.members.isEmpty || c.appName.isEmpty then (.invalidArgument, d) else
  match d.apply (.shard c) with
  | .ok (d', n) => (.code n, d')
  | .panic w => (.crashed w, d)

/-- SetRegions (repaired); `encoded` is the protobuf encoding of the specification, non-empty when the specification
    is non-empty -/
def apiSetRegions (d : DB) (region : List String) (count : List Nat) (encoded : Bytes) : ApiOut × DB :=
  if region.isEmpty || region.length != count.length || encoded.isEmpty then (.invalidArgument, d) else
  match d.apply (.kv (regionsRec encoded)) with
  | .ok (d', n) => (.code (if n = DBKVUpdated ∨ n = DBKVFinalized then 0 else n), d')
  | .panic w => (.crashed w, d)

def apiSetBootstrapped (d : DB) : ApiOut × DB :=
  match d.apply (.kv bootRec) with
  | .ok (d', n) => (.code (if n = DBKVUpdated ∨ n = DBKVFinalized then 0 else n), d')
  | .panic w => (.crashed w, d)


/-- `ReportAvailableNodeHost`: the report is applied, then the reply is read: that NodeHost's outgoing requests -/
def apiReport (d : DB) (nhi : NodeHostInfo) : Option (List Request) × DB :=
  match d.apply (.report nhi) with
  | .ok (d', _) => (some (d'.lookupRequests nhi.raftAddress), d')
  | .panic _ => (none, d)

/-- `GetShards` -/
def apiGetShards (d : DB) : List ShardDef := d.shards
/-- `GetNodeHostCollection`: logical time and the stored report of every NodeHost -/
def apiGetHosts (d : DB) : Nat × List (Addr × NodeHostInfo) := (d.tick, d.hostInfo)
/-- `GetShardConfigChangeIndexList` -/
def apiGetCci (d : DB) : List (Nat × Nat) := d.image.shards.map fun c => (c.shardId, c.cci)

structure StateAns where
  shardId : Nat
  cci : Nat
  members : List (Nat × Addr)
  rpc : List (Nat × String)
  available : Bool
  leader : Nat

/-- `toShardState` -/
def shardState (d : DB) (c : Shard) : StateAns :=
  { shardId := c.shardId, cci := c.cci, members := c.replicas.map fun r => (r.replicaId, r.address),
    rpc := c.replicas.map fun r => (r.replicaId, match hostFind? d.hosts r.address with | some h => h.rpcAddress | none => ""),
    available := c.available d.tick,
    leader := match c.replicas.find? (·.isLeader) with | some r => r.replicaId | none => 0 }

/-- `GetShardStates`: `none` = ErrShardNotFound (an unknown shard in the list, or an empty list: the answer encodes to
    zero bytes) -/
def apiGetStates (d : DB) (ids : List Nat) : Option (List StateAns) :=
  if ids.isEmpty then none else
  ids.mapM fun id => (d.image.find? id).map (shardState d)

def deploymentKey : Bytes := "deployment-id".toUTF8.toList
/-- `GetDeploymentInfo`: the stored decimal string; `none` = not set / not a number -/
def apiGetDeployment (d : DB) : Option Nat :=
  match kvGet d.kv deploymentKey with
  | none => none
  | some r => (String.fromUTF8? ⟨r.value.toArray⟩).bind String.toNat?

end Drummer
