namespace P
def usub64 (a b : Nat) : Nat := (a + 18446744073709551616 - b) % 18446744073709551616
def nodeHostTTL : Nat := 60
def entityFailed (lastTick currentTick : Nat) : Bool := decide (usub64 currentTick lastTick > nodeHostTTL)
structure Replica where
  tick : Nat
  firstObserved : Nat
def Replica.failed (n : Replica) (tick : Nat) : Bool :=
  if n.tick == 0 then n.firstObserved == 0 else entityFailed n.tick tick
def Replica.waiting (n : Replica) (tick : Nat) : Bool := n.tick == 0 && !n.failed tick
def Replica.ok (n : Replica) (tick : Nat) : Bool := !n.failed tick && !n.waiting tick

theorem entityFailed_iff (l c : Nat) (h : l ≤ c) (hc : c < 18446744073709551616) :
    entityFailed l c = true ↔ c - l > 60 := by
  unfold entityFailed usub64 nodeHostTTL
  simp only [decide_eq_true_eq]
  omega

theorem classes (n : Replica) (now : Nat) (h : n.tick ≤ now) (hc : now < 18446744073709551616) :
    (n.ok now = true ↔ n.tick > 0 ∧ now - n.tick ≤ 60) ∧
    (n.failed now = true ↔ (n.tick > 0 ∧ now - n.tick > 60) ∨ (n.tick = 0 ∧ n.firstObserved = 0)) ∧
    (n.waiting now = true ↔ n.tick = 0 ∧ n.firstObserved > 0) := by
  have := entityFailed_iff n.tick now h hc
  unfold Replica.ok Replica.waiting Replica.failed
  by_cases ht : n.tick = 0 <;> by_cases hf : n.firstObserved = 0 <;>
    by_cases he : entityFailed n.tick now = true <;> simp_all <;> omega
#print axioms classes
end P
