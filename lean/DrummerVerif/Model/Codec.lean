import DrummerVerif.Gen.GenConst
/-! M-CODEC prototype: Colfer encoding of kv.KV (kv/kv.go) over `List UInt8` -/
namespace Codec

abbrev Bytes := List UInt8

def sizeMax : Nat := Drummer.Gen.colferSizeMax

structure KV where
  key : Bytes := []
  val : Bytes := []
  deriving DecidableEq, Repr

/-- the `for x >= 0x80 { buf[i] = byte(x|0x80); x >>= 7 }; buf[i] = byte(x)` loop -/
def encVar (x : Nat) : Bytes :=
  if h : x ≥ 128 then UInt8.ofNat (x % 128 + 128) :: encVar (x / 128) else [UInt8.ofNat x]
termination_by x
decreasing_by omega

def encField (hdr : UInt8) (b : Bytes) : Bytes := if b.isEmpty then [] else hdr :: encVar b.length ++ b

/-- MarshalTo -/
def marshal (o : KV) : Bytes := encField 0 o.key ++ encField 1 o.val ++ [0x7f]

def varLen (x : Nat) : Nat := if h : x ≥ 128 then 1 + varLen (x / 128) else 1
termination_by x
decreasing_by omega

inductive LenRes | ok (n : Nat) | max
  deriving DecidableEq, Repr

/-- MarshalLen -/
def marshalLen (o : KV) : LenRes :=
  if o.key.length > sizeMax then .max else
  if o.val.length > sizeMax then .max else
  let l := 1 + (if o.key.isEmpty then 0 else o.key.length + 1 + varLen o.key.length) +
               (if o.val.isEmpty then 0 else o.val.length + 1 + varLen o.val.length)
  if l > sizeMax then .max else .ok l

inductive Err | eof | max | header (at_ : Nat) | tail (at_ : Nat)
  deriving DecidableEq, Repr

inductive Res
  | ok (n : Nat) (o : KV)
  | err (e : Err) (o : KV)      -- the object may already have been modified
  | oob                         -- would read out of bounds: must be unreachable
  deriving DecidableEq, Repr

def shl64 (b s : Nat) : Nat := if s ≥ 64 then 0 else (b * 2 ^ s) % 18446744073709551616

/-- the continuation loop of the varint decoder; `i` is the read position; returns value and new position,
    `none` = ran past the end (goto eof) -/
def decLoop (data : Bytes) : Nat → Nat → Nat → Nat → Option (Nat × Nat)
  | 0, _, _, _ => none
  | fuel+1, x, shift, i =>
    match data[i]? with
    | none => none
    | some b =>
      if b.toNat < 128 then some (x ||| shl64 b.toNat shift, i + 1)
      else decLoop data fuel (x ||| shl64 (b.toNat % 128) shift) (shift + 7) (i + 1)

/-- decode one length-prefixed text field starting at `i` (just after its header):
    returns (bytes, position of the next header + 1, next header) -/
inductive FieldRes | ok (b : Bytes) (i : Nat) (hdr : UInt8) | eof (i : Nat) | max | oob

def decField (data : Bytes) (i : Nat) : FieldRes :=
  match data[i]? with
  | none => .eof i                 -- `if i >= len(data) goto eof`
  | some b0 =>
    let r := if b0.toNat ≥ 128 then decLoop data data.length (b0.toNat % 128) 7 (i + 1) else some (b0.toNat, i + 1)
    match r with
    | none => .eof data.length
    | some (x, i1) =>
      if x > sizeMax then .max else
      let i2 := i1 + x
      if i2 ≥ data.length then .eof i2 else
      match data[i2]? with
      | none => .oob
      | some hdr => .ok ((data.drop i1).take x) (i2 + 1) hdr

def eofErr (i : Nat) (o : KV) : Res := if i ≥ sizeMax then .err .max o else .err .eof o

/-- Unmarshal -/
def unmarshal (o : KV) (data : Bytes) : Res :=
  match data with
  | [] => .err .eof o
  | h0 :: _ =>
    -- key
    let afterKey : Option (KV × Nat × UInt8) ⊕ Res :=
      if h0 = 0 then
        match decField data 1 with
        | .ok b i hdr => .inl (some ({ o with key := b }, i, hdr))
        | .eof i => .inr (eofErr i o)
        | .max => .inr (.err .max o)
        | .oob => .inr .oob
      else .inl (some (o, 1, h0))
    match afterKey with
    | .inr r => r
    | .inl none => .oob
    | .inl (some (o1, i1, h1)) =>
      let afterVal : Option (KV × Nat × UInt8) ⊕ Res :=
        if h1 = 1 then
          match decField data i1 with
          | .ok b i hdr => .inl (some ({ o1 with val := b }, i, hdr))
          | .eof i => .inr (eofErr i o1)
          | .max => .inr (.err .max o1)
          | .oob => .inr .oob
        else .inl (some (o1, i1, h1))
      match afterVal with
      | .inr r => r
      | .inl none => .oob
      | .inl (some (o2, i2, h2)) =>
        if h2 ≠ 0x7f then .err (.header (i2 - 1)) o2
        else if i2 < sizeMax then .ok i2 o2 else eofErr i2 o2

/-- UnmarshalBinary -/
def unmarshalBinary (o : KV) (data : Bytes) : Res :=
  match unmarshal o data with
  | .ok i o' => if i < data.length then .err (.tail i) o' else .ok i o'
  | r => r

#eval marshal { key := [107], val := [118, 49] }
#eval unmarshalBinary {} (marshal { key := [107], val := [118, 49] })
#eval unmarshalBinary { key := [1], val := [2] } (marshal { key := [107] })   -- absent val keeps the old one
#eval unmarshalBinary {} (marshal { key := [107] } ++ [0])
#eval marshalLen { key := [107], val := [118, 49] }

end Codec
