import DrummerVerif.Gen.GenConst
/-! M-DB: executable model of db.go / shardimage.go / nodehostimage.go (core Lean only).
    Constants come from `Gen/GenConst.lean`, regenerated from the Go packages on every run. -/
namespace Drummer

abbrev Addr := String
abbrev Bytes := List UInt8

inductive Outcome (α : Type)
  | ok (a : α)
  | panic (why : String)
  deriving Repr

instance : Monad Outcome where
  pure := .ok
  bind x f := match x with | .ok a => f a | .panic w => .panic w

def tickInterval : Nat := Gen.tickIntervalSecond
def nodeHostTTL : Nat := Gen.nodeHostTTL
def launchDeadlineTick : Nat := Gen.launchDeadlineTick
def usub64 (a b : Nat) : Nat := (a + 18446744073709551616 - b) % 18446744073709551616

structure Replica where
  shardId : Nat
  replicaId : Nat
  address : Addr
  isLeader : Bool := false
  tick : Nat := 0
  firstObserved : Nat := 0
  deriving Repr, DecidableEq

structure Shard where
  shardId : Nat
  cci : Nat
  replicas : List Replica
  deriving Repr, DecidableEq

structure KillEntry where
  shardId : Nat
  replicaId : Nat
  address : Addr
  deriving Repr, DecidableEq

structure MultiShard where
  shards : List Shard := []
  toKill : List KillEntry := []
  deriving Repr

structure LogInfo where
  shardId : Nat
  replicaId : Nat
  deriving Repr, DecidableEq

structure HostSpec where
  address : Addr
  rpcAddress : String
  region : String
  tick : Nat
  plog : List LogInfo
  shards : List Nat
  deriving Repr

structure ShardInfo where
  shardId : Nat
  replicaId : Nat
  isLeader : Bool := false
  replicas : List (Nat × Addr) := []
  cci : Nat := 0
  incomplete : Bool := false
  pending : Bool := false
  deriving Repr

structure NodeHostInfo where
  raftAddress : Addr
  shardInfo : List ShardInfo := []
  shardIdList : List Nat := []
  lastTick : Nat := 0
  plogIncluded : Bool := false
  plogInfo : List LogInfo := []
  region : String := ""
  rpcAddress : String := ""
  deriving Repr

inductive ReqType | create | delete | add | kill
  deriving Repr, DecidableEq

structure Request where
  type : ReqType
  shardId : Nat
  members : List Nat := []
  confChangeId : Nat := 0
  replicaIdList : List Nat := []
  addressList : List Addr := []
  instantiateReplicaId : Nat := 0
  raftAddress : Addr
  join : Bool := false
  restore : Bool := false
  appName : String := ""
  deriving Repr, DecidableEq

structure KVRec where
  key : Bytes
  value : Bytes
  instanceId : Nat := 0
  tick : Nat := 0
  oldInstanceId : Nat := 0
  finalized : Bool := false
  deriving Repr, DecidableEq

structure ShardDef where
  shardId : Nat
  members : List Nat
  appName : String
  deriving Repr, DecidableEq

structure DB where
  tick : Nat := 0
  launchDeadline : Nat := 0
  failed : Bool := false
  shards : List ShardDef := []
  kv : List (Bytes × KVRec) := []
  image : MultiShard := {}
  hosts : List HostSpec := []
  hostInfo : List (Addr × NodeHostInfo) := []
  requests : List (Addr × List Request) := []
  outgoing : List (Addr × List Request) := []
  deriving Repr

/-! ### classification (shardimage.go:146-207) -/
def entityFailed (lastTick currentTick : Nat) : Bool := decide (usub64 currentTick lastTick > nodeHostTTL)
def Replica.failed (n : Replica) (tick : Nat) : Bool :=
  if n.tick == 0 then n.firstObserved == 0 else entityFailed n.tick tick
def Replica.waiting (n : Replica) (tick : Nat) : Bool := n.tick == 0 && !n.failed tick
def Shard.okReplicas (c : Shard) (tick : Nat) : List Replica :=
  c.replicas.filter (fun n => !n.failed tick && !n.waiting tick)
def Shard.toStart (c : Shard) (tick : Nat) : List Replica := c.replicas.filter (·.waiting tick)
def Shard.failedReplicas (c : Shard) (tick : Nat) : List Replica := c.replicas.filter (·.failed tick)
def Shard.quorum (c : Shard) : Nat := c.replicas.length / 2 + 1
def Shard.available (c : Shard) (tick : Nat) : Bool := decide ((c.okReplicas tick).length ≥ c.quorum)

/-! ### multiShard.update (shardimage.go:302-509) -/
def Shard.find? (c : Shard) (rid : Nat) : Option Replica := c.replicas.find? (·.replicaId == rid)
def MultiShard.find? (mc : MultiShard) (sid : Nat) : Option Shard := mc.shards.find? (·.shardId == sid)
def MultiShard.put (mc : MultiShard) (c : Shard) : MultiShard :=
  { mc with shards := c :: mc.shards.filter (·.shardId != c.shardId) }

def Shard.killRequestRequired (c : Shard) (ci : ShardInfo) : Bool :=
  if c.cci ≤ ci.cci then false else !(c.replicas.any (·.replicaId == ci.replicaId))

def getShard (ci : ShardInfo) (tick : Nat) : Shard :=
  { shardId := ci.shardId, cci := ci.cci,
    replicas := ci.replicas.map fun (rid, a) =>
      { shardId := ci.shardId, replicaId := rid, address := a, firstObserved := tick,
        isLeader := rid == ci.replicaId && ci.isLeader } }

def hasDupAddr : List Replica → Bool
  | [] => false
  | r :: rs => rs.any (·.address == r.address) || hasDupAddr rs

/-- returns (rejected, updated shard) or panics -/
def Shard.sync (c : Shard) (ci : ShardInfo) (lastTick : Nat) : Outcome (Bool × Shard) :=
  if c.cci > ci.cci then .ok (true, c) else
  if c.cci == ci.cci && c.replicas.length != ci.replicas.length then
    .panic "same config change index with different node count" else
  if c.cci == ci.cci && ci.replicas.any (fun (rid, _) => (c.find? rid).isNone) then
    .panic "different node id list" else
  let kept := c.replicas.filter (fun n => ci.replicas.any (fun (rid, _) => rid == n.replicaId))
  let added := (ci.replicas.filter (fun (rid, _) => (c.find? rid).isNone)).map fun (rid, a) =>
      ({ shardId := ci.shardId, replicaId := rid, address := a, firstObserved := lastTick } : Replica)
  if ci.replicas.any (fun (rid, a) => match c.find? rid with | some n => n.address != a | none => false) then
    .panic "changing node address in drummer" else
  let all := kept ++ added
  if hasDupAddr all then .panic "duplicated addr on drummer" else
  .ok (false, { c with cci := ci.cci, replicas := all })

/-- the weak kill test of the pending / incomplete branches (shardimage.go:362-369, 387-393) -/
def Shard.weakKill (ec : Shard) (ci : ShardInfo) : Bool :=
  decide (ec.replicas.length > 0) && decide (ec.cci > 0) && ec.killRequestRequired ci

/-- one iteration of the `doUpdate` loop: the new image and whether this entry names a replica to kill -/
def doUpdate1 (lastTick : Nat) (mc : MultiShard) (ci : ShardInfo) : Outcome (MultiShard × Bool) :=
  match mc.find? ci.shardId with
  | none =>
    if ci.pending || ci.incomplete then .ok (mc, false)
    else .ok (mc.put (getShard ci lastTick), false)
  | some ec =>
    if ci.pending || ci.incomplete then .ok (mc, ec.weakKill ci)
    else
      match ec.sync ci lastTick with
      | .panic w => .panic w
      | .ok (rejected, ec') => .ok (mc.put ec', rejected && ec'.killRequestRequired ci)

/-- doUpdate without the final tick update: returns new image and shard infos to kill -/
def doUpdateLoop (lastTick : Nat) : MultiShard → List ShardInfo → List ShardInfo → Outcome (MultiShard × List ShardInfo)
  | mc, [], acc => .ok (mc, acc.reverse)
  | mc, ci :: rest, acc =>
    match doUpdate1 lastTick mc ci with
    | .panic w => .panic w
    | .ok (mc', kill) => doUpdateLoop lastTick mc' rest (if kill then ci :: acc else acc)

def updateNodeTick (mc : MultiShard) (nhi : NodeHostInfo) : MultiShard :=
  nhi.shardInfo.foldl (fun mc ci =>
    match mc.find? ci.shardId with
    | some ec =>
      if ec.replicas.any (·.replicaId == ci.replicaId) then
        mc.put { ec with replicas := ec.replicas.map fun n =>
          if n.replicaId == ci.replicaId then { n with tick := nhi.lastTick } else n }
      else mc
    | none => mc) mc

def syncLeaderInfo (mc : MultiShard) (nhi : NodeHostInfo) : MultiShard :=
  nhi.shardInfo.foldl (fun mc ci =>
    match mc.find? ci.shardId with
    | none => mc
    | some c =>
      if c.cci > ci.cci then mc else
      match c.find? ci.replicaId with
      | none => mc
      | some n =>
        if !ci.isLeader && n.isLeader then
          mc.put { c with replicas := c.replicas.map fun r =>
            if r.replicaId == ci.replicaId then { r with isLeader := false } else r }
        else if ci.isLeader && !n.isLeader then
          mc.put { c with replicas := c.replicas.map fun r =>
            { r with isLeader := r.replicaId == ci.replicaId } }
        else mc) mc

def MultiShard.update (mc : MultiShard) (nhi : NodeHostInfo) : Outcome MultiShard := do
  let (mc1, toKill) ← doUpdateLoop nhi.lastTick mc nhi.shardInfo []
  let mc2 := updateNodeTick mc1 nhi
  -- repaired (F-C11): a report replaces what was recorded for its own address
  let mc3 := { mc2 with toKill := mc2.toKill.filter (·.address != nhi.raftAddress) ++ toKill.map fun ci =>
    { shardId := ci.shardId, replicaId := ci.replicaId, address := nhi.raftAddress } }
  pure (syncLeaderInfo mc3 nhi)

/-! ### multiNodeHost (nodehostimage.go) -/
def hostFind? (hs : List HostSpec) (a : Addr) : Option HostSpec := hs.find? (·.address == a)
def hostPut (hs : List HostSpec) (h : HostSpec) : List HostSpec := h :: hs.filter (·.address != h.address)

def hostsUpdate (hs : List HostSpec) (nhi : NodeHostInfo) : List HostSpec :=
  match hostFind? hs nhi.raftAddress with
  | some spec =>
    hostPut hs { spec with region := nhi.region, tick := nhi.lastTick,
                           plog := if nhi.plogIncluded then nhi.plogInfo else spec.plog,
                           shards := nhi.shardIdList.eraseDups }
  | none =>
    hostPut hs { address := nhi.raftAddress, rpcAddress := nhi.rpcAddress, region := nhi.region,
                 tick := nhi.lastTick, plog := if nhi.plogIncluded then nhi.plogInfo else [],
                 shards := nhi.shardIdList.eraseDups }

def syncShardInfo (hs : List HostSpec) (mc : MultiShard) : List HostSpec :=
  hs.map fun spec =>
    let extra := (mc.shards.filter fun c => c.replicas.any (·.address == spec.address)).map (·.shardId)
    { spec with shards := (spec.shards ++ extra).eraseDups }

/-! ### DB commands (db.go) -/
def amGet {ν : Type} (m : List (Addr × ν)) (a : Addr) : Option ν := (m.find? (·.1 == a)).map (·.2)
def amDel {ν : Type} (m : List (Addr × ν)) (a : Addr) : List (Addr × ν) := m.filter (·.1 != a)
def amPut {ν : Type} (m : List (Addr × ν)) (a : Addr) (v : ν) : List (Addr × ν) := (a, v) :: amDel m a

/-- `asciiBytes` of the key names, spelled out so that the kernel can evaluate histories (`#guard`s below keep them honest) -/
def launchedKey : Bytes := [108, 97, 117, 110, 99, 104, 101, 100, 45, 102, 108, 97, 103]       -- "launched-flag"
def bootstrappedKey : Bytes := [98, 111, 111, 116, 115, 116, 114, 97, 112, 112, 101, 100, 45, 102, 108, 97, 103]   -- "bootstrapped-flag"
def trueValue : Bytes := [116, 114, 117, 101]   -- "true"
#guard launchedKey == "launched-flag".toUTF8.toList
#guard bootstrappedKey == "bootstrapped-flag".toUTF8.toList
#guard trueValue == "true".toUTF8.toList

def kvGet (m : List (Bytes × KVRec)) (k : Bytes) : Option KVRec := (m.find? (·.1 == k)).map (·.2)
def kvPut (m : List (Bytes × KVRec)) (k : Bytes) (v : KVRec) : List (Bytes × KVRec) :=
  (k, v) :: m.filter (·.1 != k)

def DBKVUpdated := Gen.DBKVUpdated
def DBKVFinalized := Gen.DBKVFinalized
def DBKVRejected := Gen.DBKVRejected

def DB.applyKV (d : DB) (kv : KVRec) : Outcome (DB × Nat) :=
  if kv.key.isEmpty || kv.value.isEmpty then .panic "key and value can not be empty" else
  match kvGet d.kv kv.key with
  | none => .ok ({ d with kv := kvPut d.kv kv.key kv }, DBKVUpdated)
  | some old =>
    if old.finalized then .ok (d, DBKVFinalized)
    else if old.instanceId == kv.instanceId || old.instanceId == kv.oldInstanceId then
      .ok ({ d with kv := kvPut d.kv kv.key kv }, DBKVUpdated)
    else .ok (d, DBKVRejected)

def DB.launched (d : DB) : Bool := (kvGet d.kv launchedKey).isSome
def DB.bootstrapped (d : DB) : Bool := (kvGet d.kv bootstrappedKey).isSome

def DB.applyShard (d : DB) (c : ShardDef) : Outcome (DB × Nat) :=
  if c.members.isEmpty then .panic "DrummerChange.Members should be of size 1 at least" else
  if c.appName.isEmpty then .panic "empty app name is not allowed" else
  if d.bootstrapped then .ok (d, Gen.DBBootstrapped) else
  if d.shards.any (·.shardId == c.shardId) then .ok (d, Gen.ShardExists) else
  .ok ({ d with shards := c :: d.shards }, Gen.DBUpdated)

def DB.launchedShards (d : DB) : Nat :=
  (d.image.shards.filter fun c => c.replicas.all (·.tick > 0)).length

/-- repaired (F-C09): every *defined* shard has a view whose members have all reported at a positive time -/
def DB.allLaunched (d : DB) : Bool :=
  d.shards.all fun s => match d.image.find? s.shardId with
    | some c => c.replicas.all (·.tick > 0)
    | none => false

def DB.onUpdatedShardInfo (d : DB) : DB :=
  if d.launchDeadline > 0 && d.allLaunched then { d with launchDeadline := 0 } else d

def DB.applyTick (d : DB) : Outcome (DB × Nat) :=
  let d1 := { d with tick := d.tick + tickInterval }
  if d1.launchDeadline > 0 && d1.tick > d1.launchDeadline then .panic "Drummer based system failed to launch"
  else .ok (d1, d1.tick)

/-- the view part of a report: stamp, store, update both images (may panic on inconsistent input) -/
def DB.reportView (d : DB) (nhi0 : NodeHostInfo) : Outcome DB :=
  match d.image.update { nhi0 with lastTick := d.tick } with
  | .panic w => .panic w
  | .ok image =>
    .ok { d with hostInfo := amPut d.hostInfo nhi0.raftAddress { nhi0 with lastTick := d.tick }, image := image,
                 hosts := syncShardInfo (hostsUpdate d.hosts { nhi0 with lastTick := d.tick }) image }

/-- the mailbox part of a report from `a`: forget what was handed out before, hand out what is pending -/
def DB.moveRequests (d : DB) (a : Addr) : DB × Nat :=
  match amGet d.requests a with
  | some rs => ({ d with requests := amDel d.requests a, outgoing := amPut (amDel d.outgoing a) a rs }, rs.length)
  | none => ({ d with outgoing := amDel d.outgoing a }, 0)

def DB.applyReport (d : DB) (nhi0 : NodeHostInfo) : Outcome (DB × Nat) :=
  match d.reportView nhi0 with
  | .panic w => .panic w
  | .ok d1 => .ok ((d1.moveRequests nhi0.raftAddress).1.onUpdatedShardInfo, (d1.moveRequests nhi0.raftAddress).2)

def isLaunchReq (r : Request) : Bool := r.type == .create && !r.join && !r.restore

def groupStep (m : List (Addr × List Request)) (r : Request) : List (Addr × List Request) :=
  amPut m r.raftAddress ((amGet m r.raftAddress).getD [] ++ [r])

/-- `isLaunchRequests`: panics on a batch that mixes launch requests with others -/
def isLaunchBatch (rs : List Request) : Outcome Bool :=
  if (rs.filter isLaunchReq).length > 0 ∧ (rs.filter isLaunchReq).length ≠ rs.length then
    .panic "found launch request, but not all requests are launch requests"
  else .ok (decide ((rs.filter isLaunchReq).length > 0))

/-- per-address last-writer-wins replacement of the pending batches (db.go:297-308) -/
def DB.mergeRequests (d : DB) (rs : List Request) : DB :=
  { d with requests := (rs.foldl groupStep []).foldl (fun m (p : Addr × List Request) => amPut m p.1 p.2) d.requests }

def launchedRec : KVRec := { key := launchedKey, value := trueValue, finalized := true }

/-- `setLaunched` + arming the deadline (db.go:309-312) -/
def DB.markLaunched (d : DB) : Outcome DB :=
  match d.applyKV launchedRec with
  | .panic w => .panic w
  | .ok (d2, code) =>
    if code != DBKVUpdated then .panic "failed to set the launched flag"
    else .ok { d2 with launchDeadline := d2.tick + launchDeadlineTick * tickInterval }

def DB.applyRequests (d : DB) (rs : List Request) : Outcome (DB × Nat) :=
  match isLaunchBatch rs with
  | .panic w => .panic w
  | .ok launch =>
    if d.launched && launch then .ok (d, 0)
    else if launch then
      match (d.mergeRequests rs).markLaunched with
      | .panic w => .panic w
      | .ok d' => .ok (d', rs.length)
    else .ok (d.mergeRequests rs, rs.length)

inductive Cmd
  | tick
  | shard (c : ShardDef)
  | kv (r : KVRec)
  | report (nhi : NodeHostInfo)
  | requests (rs : List Request)

def DB.apply (d : DB) (c : Cmd) : Outcome (DB × Nat) :=
  if d.failed then .panic "Drummer based system failed to launch" else
  match c with
  | .tick =>
    -- the Go code sets Failed before panicking; the latch is part of the state
    match d.applyTick with
    | .panic w => .panic w
    | ok => ok
  | .shard c => d.applyShard c
  | .kv r => d.applyKV r
  | .report nhi => d.applyReport nhi
  | .requests rs => d.applyRequests rs

def DB.lookupRequests (d : DB) (a : Addr) : List Request := (amGet d.outgoing a).getD []

-- smoke test mirroring the Go probe for F-C11
def full (addr : Addr) (rid cci : Nat) (reps : List (Nat × Addr)) : Cmd :=
  .report { raftAddress := addr, shardInfo := [{ shardId := 1, replicaId := rid, cci := cci, replicas := reps }], shardIdList := [1] }

def run (cs : List Cmd) : Outcome DB := cs.foldlM (fun d c => do let (d', _) ← d.apply c; pure d') {}

#eval match run [.tick, full "a1" 1 5 [(1,"a1"),(2,"a2"),(3,"a3")], full "a2" 2 9 [(1,"a1"),(2,"a2"),(4,"a4")],
                 full "a3" 3 5 [(1,"a1"),(2,"a2"),(3,"a3")], full "a3" 3 5 [(1,"a1"),(2,"a2"),(3,"a3")]] with
  | .ok d => repr (d.image.toKill, (d.image.find? 1).map (fun (c : Shard) => c.cci), (d.image.find? 1).map (fun (c : Shard) => c.replicas.map (fun (r : Replica) => (r.replicaId, r.tick, r.firstObserved))))
  | .panic w => w

end Drummer
