import DrummerVerif.Gen.GenConst
/-! M-ELECT (turn level): election.go over the CAS record of db.go:316-342 -/
namespace Elect

/-- regenerated from election.go -/
def deadLeaderMinRound : Nat := Drummer.Gen.deadLeaderMinRound

structure Cur where
  inst : Nat
  tick : Nat
  static : Nat
  deriving Repr, DecidableEq

structure Srv where
  id : Nat
  leader : Bool := false
  cur : Option Cur := none
  tick : Nat := 0
  deriving Repr, DecidableEq

abbrev Rec := Option (Nat × Nat)   -- (instance id, tick)

/-- `applyKVUpdate` on the non-finalized election record -/
def write (r : Rec) (inst old tick : Nat) : Rec × Bool :=
  match r with
  | none => (some (inst, tick), true)
  | some (h, _) => if h = inst ∨ h = old then (some (inst, tick), true) else (r, false)

def recInst (r : Rec) : Nat := match r with | some (i, _) => i | none => 0
def recTick (r : Rec) : Nat := match r with | some (_, t) => t | none => 0

def resetFollower (s : Srv) : Srv :=
  { s with leader := false, cur := s.cur.map fun c => { c with static := 0 } }

def oldInst (s : Srv) : Nat := match s.cur with | some c => c.inst | none => 0

def campaign (s : Srv) (r : Rec) : Srv × Rec :=
  match write r s.id (oldInst s) s.tick with
  | (r', false) => (resetFollower s, r')
  | (r', true) => if recInst r' = s.id then ({ s with leader := true, cur := none }, r') else (s, r')

inductive SetRes | ok (c : Cur) | unknownState

def setLeaderInfo (cur : Option Cur) (inst tick : Nat) : SetRes :=
  match cur with
  | none => .ok ⟨inst, tick, 0⟩
  | some c =>
    if c.inst = inst ∧ c.tick < tick then .ok ⟨inst, tick, 0⟩
    else if c.inst = inst ∧ c.tick = tick then .ok { c with static := c.static + 1 }
    else if c.inst ≠ inst then .ok ⟨inst, tick, 0⟩
    else .unknownState

/-- one turn; `cancel` makes every DB operation of the turn fail; `none` = the `panic("unknown state")` -/
def turn (s0 : Srv) (r : Rec) (cancel : Bool) : Option (Srv × Rec) :=
  let s := { s0 with tick := s0.tick + 1 }
  if s.leader then
    if cancel then some ({ s with leader := false, cur := none }, r)
    else if recInst r ≠ s.id then some ({ s with leader := false, cur := some ⟨recInst r, recTick r, 0⟩ }, r)
    else
      match write r s.id 0 s.tick with
      | (r', true) => some (s, r')
      | (r', false) => some ({ s with leader := false, cur := none }, r')
  else
    if cancel then some (resetFollower s, r)
    else if recInst r = 0 then some (campaign s r)
    else if recInst r = s.id then
      -- renew, then becomeLeader whatever the code was (election.go:220-229)
      some ({ s with leader := true, cur := none }, (write r s.id 0 s.tick).1)
    else
      match setLeaderInfo s.cur (recInst r) (recTick r) with
      | .unknownState => none
      | .ok c =>
        let s1 := { s with cur := some c }
        if c.static > deadLeaderMinRound then some (campaign s1 r) else some (s1, r)

end Elect
