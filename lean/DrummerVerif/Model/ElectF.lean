import DrummerVerif.Model.Elect
/-! M-ELECT with partial failures: a turn whose DB operations fail from the `failAt`-th on (before being issued).
    Operations are counted as the code issues them: read of the record, `SyncGetSession` (only when no session is
    cached), the vote proposal, the read after a won campaign. -/
namespace Elect

structure SrvF where
  base : Srv
  sess : Bool := false       -- a client session is cached (drummer.go `sessionUser`)
  deriving Repr, DecidableEq

/-- does operation number `k` of the turn fail? (`failAt = 0`: nothing fails) -/
def fails (failAt k : Nat) : Bool := failAt != 0 && decide (failAt ≤ k)

def becomeFollowerNil (s : Srv) : Srv := { s with leader := false, cur := none }

/-- `renewLeadership` with its first operation numbered `n`; the flag says whether it returned an error -/
def renewF (s : SrvF) (r : Rec) (fa n : Nat) : SrvF × Rec × Bool :=
  if !s.sess && fails fa n then (s, r, true)                       -- "failed to get session": nothing changes
  else
    let n1 := if s.sess then n else n + 1
    if fails fa n1 then ({ base := becomeFollowerNil s.base, sess := false }, r, true)   -- resetSession, becomeFollower(nil)
    else
      match write r s.base.id 0 s.base.tick with
      | (r', true) => ({ s with sess := true }, r', false)
      | (r', false) => ({ base := becomeFollowerNil s.base, sess := true }, r', true)     -- refused: stepped down, and an error (fix 84f492b)

/-- `campaign` with its first operation numbered `n` -/
def campaignF (s : SrvF) (r : Rec) (fa n : Nat) : SrvF × Rec :=
  if !s.sess && fails fa n then (s, r)                             -- no session: return
  else
    let n1 := if s.sess then n else n + 1
    if fails fa n1 then ({ base := resetFollower s.base, sess := false }, r)
    else
      match write r s.base.id (oldInst s.base) s.base.tick with
      | (r', false) => ({ base := resetFollower s.base, sess := false }, r')
      | (r', true) =>
        if fails fa (n1 + 1) then ({ base := resetFollower s.base, sess := true }, r')
        else if recInst r' = s.base.id then ({ base := { s.base with leader := true, cur := none }, sess := true }, r')
        else ({ s with sess := true }, r')

/-- one turn; `none` = the `panic("unknown state")` -/
def turnF (s0 : SrvF) (r : Rec) (fa : Nat) : Option (SrvF × Rec) :=
  let s : SrvF := { s0 with base := { s0.base with tick := s0.base.tick + 1 } }
  if s.base.leader then
    if fails fa 1 then some ({ s with base := becomeFollowerNil s.base }, r)
    else if recInst r ≠ s.base.id then
      some ({ s with base := { s.base with leader := false, cur := some ⟨recInst r, recTick r, 0⟩ } }, r)
    else
      let (s', r', _) := renewF s r fa 2            -- an error is only logged
      some (s', r')
  else
    if fails fa 1 then some ({ s with base := resetFollower s.base }, r)
    else if recInst r = 0 then some (campaignF s r fa 2)
    else if recInst r = s.base.id then
      match renewF s r fa 2 with
      | (s', r', true) => some ({ s' with base := resetFollower s'.base }, r')
      | (s', r', false) => some ({ s' with base := { s'.base with leader := true, cur := none } }, r')
    else
      match setLeaderInfo s.base.cur (recInst r) (recTick r) with
      | .unknownState => none
      | .ok c =>
        let s1 : SrvF := { s with base := { s.base with cur := some c } }
        if c.static > deadLeaderMinRound then some (campaignF s1 r fa 2) else some (s1, r)

end Elect
