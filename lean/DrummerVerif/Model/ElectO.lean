import DrummerVerif.Model.ElectF
/-! M-ELECT at the granularity of single DB operations: a turn is a sequence of up to four operations — the read of the
    election record, `SyncGetSession` (only when no session is cached), the vote, the read after an accepted campaign —
    each of which acts on the record as it is *at that moment*. Between two operations of one server any number of
    operations of other servers may take place (`Sys`/`sysStep` below); `turnF` of `Model/ElectF` is the special case
    in which the operations of a turn follow each other without anything in between (`Lemmas/C14O.runTurn_eq_turnF`). -/
namespace Elect

/-- what the server is in the middle of -/
inductive Pend
  | idle        -- between turns
  | renewL      -- leader: has read its own id, about to renew
  | renewR      -- follower that found its own id in the record (resuming): about to renew
  | camp        -- follower: about to vote for itself
  | readBack    -- follower whose vote was accepted: about to read the record again
  deriving DecidableEq, Repr

structure SrvO where
  base : Srv
  sess : Bool := false
  pend : Pend := .idle
  deriving Repr, DecidableEq

/-- the next DB operation of server `s` against the record `r` (`fail`: the operation fails before it is issued);
    `none` = the `panic("unknown state")` -/
def micro (s : SrvO) (r : Rec) (fail : Bool) : Option (SrvO × Rec) :=
  match s.pend with
  | .idle =>
    -- a new turn: the local turn counter advances, the record is read
    let b : Srv := { s.base with tick := s.base.tick + 1 }
    if b.leader then
      if fail then some ({ s with base := becomeFollowerNil b }, r)
      else if recInst r ≠ b.id then some ({ s with base := { b with leader := false, cur := some ⟨recInst r, recTick r, 0⟩ } }, r)
      else some ({ s with base := b, pend := .renewL }, r)
    else
      if fail then some ({ s with base := resetFollower b }, r)
      else if recInst r = 0 then some ({ s with base := b, pend := .camp }, r)
      else if recInst r = b.id then some ({ s with base := b, pend := .renewR }, r)
      else
        match setLeaderInfo b.cur (recInst r) (recTick r) with
        | .unknownState => none
        | .ok c =>
          let b1 : Srv := { b with cur := some c }
          if c.static > deadLeaderMinRound then some ({ s with base := b1, pend := .camp }, r) else some ({ s with base := b1 }, r)
  | .renewL =>
    if !s.sess then
      if fail then some ({ s with pend := .idle }, r)                       -- "failed to get session": only logged
      else some ({ s with sess := true }, r)
    else if fail then some ({ base := becomeFollowerNil s.base, sess := false, pend := .idle }, r)
    else
      match write r s.base.id 0 s.base.tick with
      | (r', true) => some ({ s with pend := .idle }, r')
      | (r', false) => some ({ s with base := becomeFollowerNil s.base, pend := .idle }, r')
  | .renewR =>
    if !s.sess then
      if fail then some ({ s with base := resetFollower s.base, pend := .idle }, r)
      else some ({ s with sess := true }, r)
    else if fail then some ({ base := resetFollower (becomeFollowerNil s.base), sess := false, pend := .idle }, r)
    else
      match write r s.base.id 0 s.base.tick with
      | (r', true) => some ({ s with base := { s.base with leader := true, cur := none }, pend := .idle }, r')
      | (r', false) => some ({ s with base := resetFollower (becomeFollowerNil s.base), pend := .idle }, r')   -- fix 84f492b
  | .camp =>
    if !s.sess then
      if fail then some ({ s with pend := .idle }, r)
      else some ({ s with sess := true }, r)
    else if fail then some ({ base := resetFollower s.base, sess := false, pend := .idle }, r)
    else
      match write r s.base.id (oldInst s.base) s.base.tick with
      | (r', false) => some ({ base := resetFollower s.base, sess := false, pend := .idle }, r')
      | (r', true) => some ({ s with pend := .readBack }, r')
  | .readBack =>
    if fail then some ({ s with base := resetFollower s.base, pend := .idle }, r)
    else if recInst r = s.base.id then some ({ s with base := { s.base with leader := true, cur := none }, pend := .idle }, r)
    else some ({ s with pend := .idle }, r)

/-- the operations of one turn back to back: operation `k` fails iff `fails fa k` -/
def runOps (fa : Nat) : Nat → Nat → SrvO → Rec → Option (SrvO × Rec)
  | 0, _, s, r => some (s, r)
  | fuel + 1, k, s, r =>
    match micro s r (fails fa k) with
    | none => none
    | some (s', r') => if s'.pend = .idle then some (s', r') else runOps fa fuel (k + 1) s' r'

def runTurn (s : SrvO) (r : Rec) (fa : Nat) : Option (SrvO × Rec) := runOps fa 4 1 s r

/-- the system: servers and the record; an action is "server `i` performs its next operation" -/
structure Sys where
  srv : List SrvO
  record : Rec := none

def sysStep (y : Sys) (i : Nat) (fail : Bool) : Option Sys :=
  match y.srv[i]? with
  | none => some y
  | some s =>
    match micro s y.record fail with
    | none => none
    | some (s', r') => some { srv := y.srv.set i s', record := r' }

end Elect
