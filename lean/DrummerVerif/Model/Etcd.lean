import DrummerVerif.Model.Wgl
/-! the bundled register model (lcm/porcupine/etcd.go:34-59): inputs read / write / compare-and-swap, outputs with
    the `unknown` flag; `-1000000` is the sentinel for "no value" -/
namespace WGL

structure Op where
  mk ::
  op : Nat
  a1 : Int
  a2 : Int
  ok : Bool
  ex : Bool
  val : Int
  unk : Bool
  deriving Inhabited

/-- the bundled register model (lcm/porcupine/etcd.go:34-59) -/
def etcd : Model Int Op Op where
  init := -1000000
  step st i o :=
    if i.op = 0 then ((!o.ex && st == -1000000) || (o.ex && st == o.val) || o.unk, st)
    else if i.op = 1 then (true, i.a1)
    else ((i.a1 == st && o.ok) || (i.a1 != st && !o.ok) || o.unk, if i.a1 == st then i.a2 else st)


/-- register semantics for non-negative values read as an `Option` register: a read is accepted iff it reports the
    register's content (or its outcome is unknown), a write always applies, a compare-and-swap applies iff the register
    holds the expected value and is accepted iff its reported success matches (or its outcome is unknown) -/
theorem etcd_step_read (st : Int) (i o : Op) (h : i.op = 0) :
    etcd.step st i o = ((!o.ex && st == -1000000) || (o.ex && st == o.val) || o.unk, st) := by
  simp [etcd, h]
theorem etcd_step_write (st : Int) (i o : Op) (h : i.op = 1) : etcd.step st i o = (true, i.a1) := by
  simp [etcd, h]
theorem etcd_step_cas (st : Int) (i o : Op) (h0 : i.op ≠ 0) (h1 : i.op ≠ 1) :
    etcd.step st i o = ((i.a1 == st && o.ok) || (i.a1 != st && !o.ok) || o.unk, if i.a1 == st then i.a2 else st) := by
  simp [etcd, h0, h1]
end WGL
