/-! M-FS: the sync-strict node directory of the on-disk state machine (vfs.NewStrictMem semantics) and the
    file-system call sequences of the pointer protocol of tests/diskkv.go -/
namespace DiskKV

def fupd {β : Type} (f : Nat → β) (k : Nat) (v : β) : Nat → β := fun x => if x = k then v else f x

structure FS where
  cur   : Option Nat := none      -- `current` → file node (volatile view)
  curS  : Option Nat := none      -- … in the synced directory listing
  upd   : Option Nat := none      -- `current.updating`
  updS  : Option Nat := none
  dirs  : List Nat := []          -- database directories (volatile view)
  dirsS : List Nat := []          -- … synced
  fdata : Nat → Option Nat := fun _ => none   -- file node ↦ complete content (the db id it names)
  fsync : Nat → Option Nat := fun _ => none   -- … synced content
  next  : Nat := 0                -- fresh node / directory ids

inductive Prim
  | mkdir (d : Nat) | syncDir | createUpd | writeUpd (d : Nat) | syncUpd | renameUpd | removeUpd | removeDir (d : Nat)
  deriving Repr

/-- one file-system operation of the protocol (StrictMem semantics) -/
def step (s : FS) : Prim → FS
  | .mkdir d => if d ∈ s.dirs then s else { s with dirs := d :: s.dirs, next := max s.next (d + 1) }
  | .syncDir => { s with curS := s.cur, updS := s.upd, dirsS := s.dirs }
  | .createUpd => { s with upd := some s.next, fdata := fupd s.fdata s.next none, fsync := fupd s.fsync s.next none, next := s.next + 1 }
  | .writeUpd d => match s.upd with | some u => { s with fdata := fupd s.fdata u (some d) } | none => s
  | .syncUpd => match s.upd with | some u => { s with fsync := fupd s.fsync u (s.fdata u) } | none => s
  | .renameUpd => match s.upd with | some u => { s with cur := some u, upd := none } | none => s
  | .removeUpd => { s with upd := none }
  | .removeDir d => { s with dirs := s.dirs.filter (· ≠ d) }

/-- power loss: everything not synced is gone -/
def crash (s : FS) : FS := { s with cur := s.curS, upd := s.updS, dirs := s.dirsS, fdata := s.fsync }

/-- what `Open` does after a crash: new run, or clean-up and reopen; `none` = it panics -/
inductive OpenRes | newRun | reopen (d : Nat) | panicCorrupted | panicDirMissing
  deriving DecidableEq, Repr

def openAfter (s : FS) : OpenRes :=
  match s.cur with
  | none => .newRun
  | some n =>
    match s.fdata n with
    | none => .panicCorrupted
    | some d => if d ∈ s.dirs then .reopen d else .panicDirMissing

/-- the first `Open` as it was at the pinned commit (F-C16): the pointer is published before the directory it names
    is created -/
def unfixedOpenNew (d : Nat) : List Prim := [.createUpd, .writeUpd d, .syncUpd, .syncDir, .renameUpd, .syncDir, .mkdir d, .syncDir]
/-- the repaired first `Open` (tests/diskkv.go `Open`, new-run branch): `MkdirAll(dbdir)` (which syncs the parent),
    `saveCurrentDBDirName` (create, write, sync file, sync dir), `replaceCurrentDBFile` (rename, sync dir) -/
def fixedOpenNew (d : Nat) : List Prim := [.mkdir d, .syncDir, .createUpd, .writeUpd d, .syncUpd, .syncDir, .renameUpd, .syncDir]
/-- the pointer switch of `RecoverFromSnapshot`: new directory made durable, pointer staged, synced, the directory
    synced, published, published durably, then the old directory removed -/
def recoverSeq (d old : Nat) : List Prim :=
  [.mkdir d, .syncDir, .createUpd, .writeUpd d, .syncUpd, .syncDir, .renameUpd, .syncDir, .removeDir old, .syncDir]
/-- what a later `Open` does before reopening: a left-over staged pointer is removed (`cleanupNodeDataDir`) -/
def reopenSeq : List Prim := [.removeUpd]

def Prim.name : Prim → String
  | .mkdir _ => "mkdir" | .syncDir => "syncDir" | .createUpd => "createUpd" | .writeUpd _ => "writeUpd" | .syncUpd => "syncUpd"
  | .renameUpd => "renameUpd" | .removeUpd => "removeUpd" | .removeDir _ => "removeDir"

end DiskKV
