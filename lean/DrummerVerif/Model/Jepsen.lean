/-! M-JEPSEN prototype: `%-4d%-8s%-8s%s` line format and whitespace tokeniser -/
namespace Jepsen

def isWs (c : Char) : Bool := c = ' ' || c = '\t' || c = '\n' || c = '\r' || c = '\x0c'

def tokAux : List Char → List Char → List (List Char)
  | acc, [] => if acc.isEmpty then [] else [acc.reverse]
  | acc, c :: cs =>
    if isWs c then (if acc.isEmpty then tokAux [] cs else acc.reverse :: tokAux [] cs)
    else tokAux (c :: acc) cs

def tokens (s : List Char) : List (List Char) := tokAux [] s

def NoWs (w : List Char) : Prop := ∀ c ∈ w, isWs c = false
instance (w : List Char) : Decidable (NoWs w) := by unfold NoWs; infer_instance

theorem tokAux_word (w : List Char) (hw : NoWs w) : ∀ (acc rest : List Char),
    tokAux acc (w ++ rest) = tokAux (w.reverse ++ acc) rest := by
  induction w with
  | nil => intro acc rest; rfl
  | cons c cs ih =>
    intro acc rest
    have hc : isWs c = false := hw c (by simp)
    have hcs : NoWs cs := fun x hx => hw x (by simp [hx])
    simp only [List.cons_append, tokAux, hc, Bool.false_eq_true, if_false]
    rw [ih hcs]
    simp

theorem tokens_word_sp (w rest : List Char) (hw : NoWs w) (hne : w ≠ []) :
    tokens (w ++ ' ' :: rest) = w :: tokens rest := by
  unfold tokens
  rw [tokAux_word w hw]
  have : isWs ' ' = true := by decide
  simp [tokAux, this, hne]

theorem tokens_sp (rest : List Char) : tokens (' ' :: rest) = tokens rest := by
  have : isWs ' ' = true := by decide
  simp [tokens, tokAux, this]

theorem tokens_spaces (n : Nat) (rest : List Char) : tokens (List.replicate n ' ' ++ rest) = tokens rest := by
  induction n with
  | zero => rfl
  | succ n ih => simp only [List.replicate_succ, List.cons_append, tokens_sp, ih]

theorem tokens_word_end (w : List Char) (hw : NoWs w) (hne : w ≠ []) : tokens w = [w] := by
  have := tokAux_word w hw [] []
  simp only [List.append_nil] at this
  unfold tokens; rw [this]
  simp [tokAux, hne]

def padRight (n : Nat) (s : List Char) : List Char := s ++ List.replicate (n - s.length) ' '

/-- a padded field followed by more text tokenises as the field, provided padding is non-empty -/
theorem tokens_pad (n : Nat) (w rest : List Char) (hw : NoWs w) (hne : w ≠ []) (hlen : w.length < n) :
    tokens (padRight n w ++ rest) = w :: tokens rest := by
  unfold padRight
  obtain ⟨k, hk⟩ : ∃ k, n - w.length = k + 1 := ⟨n - w.length - 1, by omega⟩
  rw [hk, List.replicate_succ, List.append_assoc, List.cons_append, tokens_word_sp w _ hw hne, tokens_spaces]

def digits (n : Nat) : List Char := Nat.toDigits 10 n

theorem digits_noWs (n : Nat) : NoWs (digits n) := by
  intro c hc
  have := Nat.isDigit_of_mem_toDigits (by decide) (by decide) hc
  unfold Char.isDigit at this
  unfold isWs
  simp only [Bool.and_eq_true, decide_eq_true_eq] at this
  have h1 : c ≠ ' ' := by rintro rfl; revert this; decide
  have h2 : c ≠ '\t' := by rintro rfl; revert this; decide
  have h3 : c ≠ '\n' := by rintro rfl; revert this; decide
  have h4 : c ≠ '\r' := by rintro rfl; revert this; decide
  have h5 : c ≠ '\x0c' := by rintro rfl; revert this; decide
  simp [h1, h2, h3, h4, h5]

theorem digits_ne_nil (n : Nat) : digits n ≠ [] := Nat.toDigits_ne_nil

/-- the invoke-read line -/
def invokeRead (id : Nat) : List Char :=
  "INFO  jepsen.util - ".toList ++ (padRight 4 (digits id) ++ (padRight 8 ":invoke".toList ++ (padRight 8 ":read".toList ++ "nil".toList)))

theorem tokens_invokeRead (id : Nat) (hid : (digits id).length < 4) :
    tokens (invokeRead id) =
      ["INFO".toList, "jepsen.util".toList, "-".toList, digits id, ":invoke".toList, ":read".toList, "nil".toList] := by
  unfold invokeRead
  have e0 : "INFO  jepsen.util - ".toList = "INFO".toList ++ ' ' :: (' ' :: ("jepsen.util".toList ++ ' ' :: ("-".toList ++ ' ' :: []))) := by decide
  rw [e0]
  simp only [List.append_assoc, List.cons_append, List.nil_append]
  rw [tokens_word_sp _ _ (by decide) (by decide), tokens_sp, tokens_word_sp _ _ (by decide) (by decide),
      tokens_word_sp _ _ (by decide) (by decide)]
  rw [tokens_pad 4 _ _ (digits_noWs id) (digits_ne_nil id) hid]
  rw [tokens_pad 8 _ _ (by decide) (by decide) (by decide)]
  rw [tokens_pad 8 _ _ (by decide) (by decide) (by decide)]
  rw [tokens_word_end _ (by decide) (by decide)]

/-- F-C07: with a 4-digit id the id and `:invoke` merge into one token -/
example : tokens (invokeRead 1000) =
    ["INFO".toList, "jepsen.util".toList, "-".toList, "1000:invoke".toList, ":read".toList, "nil".toList] := by decide

#print axioms tokens_invokeRead
end Jepsen
