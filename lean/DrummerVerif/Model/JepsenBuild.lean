import DrummerVerif.Lemmas.C07P
/-! M-JEPSEN, history building: what `parseJepsenLog` (lcm/porcupine/etcd.go:60-157) makes of the classified lines —
    operation ids are assigned in order of invocation, a completion is matched through the per-process map
    (`procIdMap[proc]`, the Go zero value 0 when the process has no open operation), operations still open at the end
    of the log are closed with unknown outcome (in Go map order: compared as a set) -/
namespace Jepsen

inductive PEv
  | call (id : Nat) (op : Nat) (arg : Nat)                       -- op 0 read, 1 write
  | ret (id : Nat) (ex : Bool) (value : Nat) (unknown : Bool)
  deriving DecidableEq, Repr

abbrev PMap := List (Nat × Nat)    -- process ↦ operation id
def PMap.get (m : PMap) (p : Nat) : Nat := ((m.find? (·.1 == p)).map (·.2)).getD 0
def PMap.set (m : PMap) (p i : Nat) : PMap := (p, i) :: m.filter (·.1 != p)
def PMap.del (m : PMap) (p : Nat) : PMap := m.filter (·.1 != p)

def buildAux : List Line → Nat → PMap → List PEv × PMap
  | [], _, m => ([], m)
  | l :: ls, next, m =>
    match l with
    | .invokeRead p => let (r, m') := buildAux ls (next + 1) (m.set p next); (.call next 0 0 :: r, m')
    | .invokeWrite p v => let (r, m') := buildAux ls (next + 1) (m.set p next); (.call next 1 v :: r, m')
    | .returnRead p none => let (r, m') := buildAux ls next (m.del p); (.ret (m.get p) false 0 false :: r, m')
    | .returnRead p (some v) => let (r, m') := buildAux ls next (m.del p); (.ret (m.get p) true v false :: r, m')
    | .returnWrite p _ => let (r, m') := buildAux ls next (m.del p); (.ret (m.get p) false 0 false :: r, m')
    | .timeoutRead p => let (r, m') := buildAux ls next (m.del p); (.ret (m.get p) false 0 true :: r, m')

/-- events in log order, and the ids closed at the end with unknown outcome -/
def build (ls : List Line) : List PEv × List Nat :=
  let (r, m) := buildAux ls 0 []
  (r, m.map (·.2))

end Jepsen
