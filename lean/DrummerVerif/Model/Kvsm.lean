import DrummerVerif.Model.Codec
import DrummerVerif.Model.AMap
/-! M-KVSM: the three test state machines (tests/kvtest.go, tests/concurrentkv.go, tests/diskkv.go) over M-CODEC,
    as one executable model parameterised by the machine kind.

    * `mem`  : `KVTest` — one `Update` per entry, a pooled decoder object, `Count` = number of updates, hash =
               md5 (JSON {KVStore, Count, Junk});
    * `conc` : `ConcurrentKVTest` — batches, fresh decoder object, `count` never incremented, hash = md5 (JSON
               {KVStore, Count});
    * `disk` : `DiskKVTest` — batches written to the on-disk key space together with the applied index (stored under
               `disk_kv_applied_index` in the same key space), hash = md5 of the sorted key space.
    md5 / JSON are not modelled: `contents` + `count` is the *value that is serialised and hashed*. -/
namespace Kvsm
open Codec

abbrev Store := List (Bytes × Bytes)

def get (s : Store) (k : Bytes) : Option Bytes := AMap.get s k
def put (s : Store) (k v : Bytes) : Store := AMap.put s k v

inductive Kind | mem | conc | disk
  deriving DecidableEq, Repr

structure SM where
  kind : Kind := .mem
  store : Store := []
  pool : Option KV := none        -- the object `sync.Pool` may hand back (mem only)
  count : Nat := 0                -- mem: number of `Update` calls
  applied : Nat := 0              -- disk: index of the last applied entry (0 = none yet)

inductive Out | ok (sm : SM) (result : Nat) | panic

/-- `KVTest.Update` as it was at the pinned commit (F-C15a): the decoder object comes from the pool *as it was left*
    (`pooled = true`) or fresh; `Unmarshal` leaves absent fields untouched -/
def updateUnfixed (s : SM) (pooled : Bool) (cmd : Bytes) : Out :=
  let o0 : KV := if pooled then s.pool.getD {} else {}
  match unmarshalBinary o0 cmd with
  | .ok _ o => .ok { s with store := put s.store o.key o.val, pool := some o, count := s.count + 1 } cmd.length
  | _ => .panic

/-- one entry: decode into a cleared object (mem, repaired) / a fresh object (conc, disk), store the pair;
    the result value is the command's length; a command that does not decode crashes the machine -/
def update (s : SM) (pooled : Bool) (cmd : Bytes) : Out :=
  let _o0 : KV := if pooled then s.pool.getD {} else {}
  match unmarshalBinary {} cmd with
  | .ok _ o => .ok { s with store := put s.store o.key o.val, pool := some o,
                            count := if s.kind = .mem then s.count + 1 else s.count } cmd.length
  | _ => .panic

/-- entries of one `Update` call: (raft index, command, what the pool does) -/
abbrev Entry := Nat × Bytes × Bool

def applyEntries : SM → List Entry → Option SM
  | s, [] => some s
  | s, (_, cmd, pooled) :: rest =>
    match update s pooled cmd with
    | .ok s' _ => applyEntries s' rest
    | .panic => none

/-- one `Update` call. The on-disk machine indexes `ents[len-1]` (an empty batch crashes) and refuses a batch whose
    last index does not move the applied index forward ("lastApplied not moving forward") -/
def updateBatch (s : SM) (ents : List Entry) : Option SM :=
  match s.kind with
  | .disk =>
    match ents.getLast? with
    | none => none
    | some (last, _, _) =>
      match applyEntries s ents with
      | none => none
      | some s' => if s.applied ≥ last then none else some { s' with applied := last }
  | _ => applyEntries s ents

/-- `Lookup`: the value stored, empty when absent -/
def lookup (s : SM) (k : Bytes) : Bytes := (get s.store k).getD []

/-- the key space that is hashed and snapshotted. For the on-disk machine the applied index lives in the same key
    space under `disk_kv_applied_index` (8 bytes, little endian); the model keeps it as the separate field `applied`
    (a user key of that name is outside the model) -/
def contents (s : SM) : Store := s.store

/-- what a snapshot carries -/
structure Snap where
  pairs : Store
  count : Nat
  applied : Nat

def snapshot (s : SM) : Snap := { pairs := contents s, count := s.count, applied := s.applied }

/-- `RecoverFromSnapshot` into machine `s` (of the same kind). The on-disk machine reads the applied index back
    from the key space and refuses to move backwards ("last applied not moving forward") -/
def recover (s : SM) (sn : Snap) : Option SM :=
  match s.kind with
  | .disk =>
    if s.applied > sn.applied then none
    else some { s with store := sn.pairs, applied := sn.applied }
  | _ => some { s with store := sn.pairs, count := sn.count }

/-- operations of the state-machine interface -/
inductive Op
  | update (ents : List Entry)
  | lookup (k : Bytes)
  | sync
  | prepare
  | save
  | hash
  | reopen                 -- Close + Open (on-disk machine)
  | recover (sn : Snap)

def step (s : SM) : Op → Option SM
  | .update ents => updateBatch s ents
  | .recover sn => recover s sn
  | _ => some s            -- lookups, sync, snapshot activity, hashing and restarts do not change the state

def run : SM → List Op → Option SM
  | s, [] => some s
  | s, o :: rest => match step s o with
    | some s' => run s' rest
    | none => none

end Kvsm
