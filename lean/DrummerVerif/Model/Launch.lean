import DrummerVerif.Model.Sched2
/-! M-SCHED, launch planning: `scheduler.getLaunchRequests` as repaired for F-C08 (the planner of the pinned commit,
    with its crashes, is `Drummer.launch` in `Model/Sched2.lean`) -/
namespace Drummer

def regionFilter (cx : Ctx) (sid : Nat) (reg : String) (h : HostSpec) : Bool :=
  liveFilter cx.tick nodeHostTTL h && basicFilter sid h && decide (h.region = reg)

/-- per-region selection, regions and counts zipped; `none` = ran out of scripted draws -/
def selectRegions (cx : Ctx) (sid : Nat) : List (String × Nat) → List Nat → Option (List HostSpec × List Nat)
  | [], draws => some ([], draws)
  | (reg, cnt) :: rest, draws =>
    match findSuitable cx.hosts (regionFilter cx sid reg) cnt draws with
    | none => none
    | some (hs, draws1) =>
      match selectRegions cx sid rest draws1 with
      | none => none
      | some (hs', draws2) => some (hs ++ hs', draws2)

def launchReqs (d : ShardDef) (sel : List HostSpec) : List Request :=
  (d.members.zip sel).map fun (m, h) =>
    ({ type := .create, shardId := d.shardId, members := d.members, replicaIdList := d.members,
       addressList := (sel.take d.members.length).map (·.address), instantiateReplicaId := m,
       raftAddress := h.address, appName := d.appName } : Request)

def launchShardF (cx : Ctx) (rg : Regions) (d : ShardDef) (draws : List Nat) : SRes (List Request) :=
  if rg.count.any (· > d.members.length) then .error "region count exceeds shard size" else
  if rg.count.sum ≠ d.members.length then .error "regions specification does not match shard size" else
  match selectRegions cx d.shardId (rg.region.zip rg.count) draws with
  | none => .panic "exhausted"
  | some (sel, rest) =>
    if sel.length < d.members.length then .error "not enough nodehost in suitable regions" else
    if ¬ (sel.map (·.address)).Nodup then .error "nodehost selected more than once" else
    .ok (launchReqs d sel) rest

def launchAllF (cx : Ctx) (rg : Regions) : List ShardDef → List Nat → SRes (List Request)
  | [], draws => .ok [] draws
  | d :: ds, draws =>
    match launchShardF cx rg d draws with
    | .panic w => .panic w
    | .error w => .error w
    | .ok reqs rest =>
      match launchAllF cx rg ds rest with
      | .ok rs dr => .ok (reqs ++ rs) dr
      | e => e

def launchF (cx : Ctx) (draws : List Nat) : SRes (List Request) :=
  match cx.regions with
  | none => .error "invalid regions specification"
  | some rg =>
    if rg.region.length ≠ rg.count.length then .error "invalid regions specification"
    else launchAllF cx rg cx.defs draws

end Drummer
