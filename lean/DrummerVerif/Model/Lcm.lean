/-! M-LCM prototype: per-process automaton derived from (regenerated) program order; invariant by `decide` -/
namespace Lcm

inductive Cond | always | onErr | onOk deriving DecidableEq, Repr
inductive GAct | rpc | setStopped | recFailed | recCompleted | setIdle deriving DecidableEq, Repr
inductive CAct | recInvoke | setBusy | spawn deriving DecidableEq, Repr

structure Prog where
  coord : List CAct
  body  : List (GAct × Cond)
  deriving Repr

/-- what `factgen` would emit for lcm/manager.go:317-344 and lcm/process.go:122-148 -/
def genProg : Prog :=
  { coord := [.recInvoke, .setBusy, .spawn],
    body := [(.rpc, .always), (.setStopped, .onErr), (.recFailed, .onErr), (.recCompleted, .onOk), (.setIdle, .always)] }

/-- local state of one process, including the ghost "history status" of its own events -/
structure L where
  idle : Bool := true
  stopped : Bool := false
  cpc : Option Nat := none          -- coordinator is at this index of `coord` for this process
  gpc : Option Nat := none          -- goroutine is at this index of `body`
  res : Option Bool := none         -- rpc result (true = ok)
  open_ : Bool := false             -- ghost: last own event is an invoke
  failed : Bool := false            -- ghost: a failure has been recorded
  bad : Bool := false               -- ghost: an ill-formed event was appended
  rpcRunning : Bool := false        -- ghost: between actual start and return of the rpc
  deriving DecidableEq, Repr

def condOk (c : Cond) (res : Option Bool) : Bool :=
  match c, res with
  | .always, _ => true
  | .onErr, some false => true
  | .onOk, some true => true
  | _, _ => false

/-- successors of a local state (all nondeterministic choices) -/
def succ (p : Prog) (s : L) : List L :=
  -- coordinator picks this process
  (if s.cpc.isNone && s.idle && !s.stopped then [{ s with cpc := some 0 }] else []) ++
  -- coordinator step
  (match s.cpc with
   | none => []
   | some i =>
     match p.coord[i]? with
     | none => [{ s with cpc := none }]
     | some .recInvoke =>
       [{ s with cpc := some (i+1), open_ := true,
                 bad := s.bad || s.open_ || s.failed || s.rpcRunning }]  -- invoke must precede start; one outstanding; none after failure
     | some .setBusy => [{ s with cpc := some (i+1), idle := false }]
     | some .spawn => [{ s with cpc := some (i+1), gpc := some 0, res := none }]) ++
  -- goroutine step
  (match s.gpc with
   | none => []
   | some i =>
     match p.body[i]? with
     | none => [{ s with gpc := none }]
     | some (a, c) =>
       if !condOk c s.res then [{ s with gpc := some (i+1) }] else
       match a with
       | .rpc =>
         if s.res.isNone && !s.rpcRunning then [{ s with rpcRunning := true, bad := s.bad || !s.open_ }]   -- rpc starts: invoke must be logged already
         else if s.rpcRunning then [{ s with rpcRunning := false, res := some true, gpc := some (i+1) },
                                    { s with rpcRunning := false, res := some false, gpc := some (i+1) }]
         else [{ s with gpc := some (i+1) }]
       | .setStopped => [{ s with gpc := some (i+1), stopped := true }]
       | .recFailed => [{ s with gpc := some (i+1), open_ := false, failed := true, bad := s.bad || !s.open_ || s.rpcRunning }]
       | .recCompleted => [{ s with gpc := some (i+1), open_ := false, bad := s.bad || !s.open_ || s.rpcRunning }]
       | .setIdle => [{ s with gpc := some (i+1), idle := true }])

def bfs (p : Prog) : Nat → List L → List L → List L
  | 0, seen, _ => seen
  | fuel+1, seen, frontier =>
    let next := (frontier.flatMap (succ p)).eraseDups.filter (fun t => !seen.contains t)
    if next.isEmpty then seen else bfs p fuel (seen ++ next) next

def reach (p : Prog) : List L := bfs p 64 [{}] [{}]

#eval (reach genProg).length
#eval (reach genProg).all (fun s => !s.bad)
-- a harmful reordering: setIdle before recording the completion
def badProg : Prog := { genProg with body := [(.rpc, .always), (.setStopped, .onErr), (.setIdle, .always), (.recFailed, .onErr), (.recCompleted, .onOk)] }
#eval (reach badProg).all (fun s => !s.bad)
-- a harmless one: setBusy before recInvoke
def okProg : Prog := { genProg with coord := [.setBusy, .recInvoke, .spawn] }
#eval (reach okProg).all (fun s => !s.bad)

/-- the inductive-invariant obligations, decided by the kernel over the whole finite table -/
theorem reach_init : ({} : L) ∈ reach genProg := by decide +kernel
theorem reach_closed : ∀ s ∈ reach genProg, ∀ t ∈ succ genProg s, t ∈ reach genProg := by decide +kernel
theorem reach_good : ∀ s ∈ reach genProg, s.bad = false := by decide +kernel

/-- every state reachable by any number of steps is good -/
inductive Reach (p : Prog) : L → Prop
  | init : Reach p {}
  | step {s t} : Reach p s → t ∈ succ p s → Reach p t

theorem all_good (s : L) (h : Reach genProg s) : s.bad = false := by
  have : s ∈ reach genProg := by
    induction h with
    | init => exact reach_init
    | step _ ht ih => exact reach_closed _ ih _ ht
  exact reach_good s this

#print axioms all_good
end Lcm
