import DrummerVerif.Model.Sched2
/-! M-LOOP prototype: Drummer (M-DB + M-SCHED) closed with a simulated fleet -/
namespace Drummer

structure SimReplica where
  shard : Nat
  id : Nat
  applied : Int            -- index into the group history; -1 = pending
  deriving Repr, DecidableEq

structure Host where
  addr : Addr
  up : Bool := true
  reportCount : Nat := 0
  running : List SimReplica := []                -- at most one per shard
  data : List ((Nat × Nat) × Int) := []          -- (shard, replica) ↦ persisted applied index
  queue : List Request := []
  deriving Repr

structure Membership where
  ver : Nat
  members : List (Nat × Addr)
  removed : List Nat
  deriving Repr

structure Group where
  shard : Nat
  hist : List Membership     -- oldest first, never empty
  deriving Repr

structure Loop where
  db : DB := {}
  hosts : List Host := []
  groups : List Group := []
  nextVer : Nat := 0
  regions : Option Regions := none

def Loop.host? (l : Loop) (a : Addr) : Option Host := l.hosts.find? (·.addr == a)
def Loop.setHost (l : Loop) (h : Host) : Loop := { l with hosts := l.hosts.map fun x => if x.addr == h.addr then h else x }
def Loop.group? (l : Loop) (s : Nat) : Option Group := l.groups.find? (·.shard == s)
def Loop.setGroup (l : Loop) (g : Group) : Loop :=
  if l.groups.any (·.shard == g.shard) then { l with groups := l.groups.map fun x => if x.shard == g.shard then g else x }
  else { l with groups := l.groups ++ [g] }

def Group.cur (g : Group) : Membership := g.hist.getLast?.getD { ver := 0, members := [], removed := [] }

def Host.run? (h : Host) (s : Nat) : Option SimReplica := h.running.find? (·.shard == s)
def Host.setRun (h : Host) (r : SimReplica) : Host := { h with running := r :: h.running.filter (·.shard != r.shard) }
def Host.dataGet (h : Host) (s r : Nat) : Option Int := (h.data.find? (fun e => e.1 == (s, r))).map (·.2)
def Host.dataPut (h : Host) (s r : Nat) (v : Int) : Host := { h with data := ((s, r), v) :: h.data.filter (fun e => e.1 != (s, r)) }
def Host.dataDel (h : Host) (s r : Nat) : Host := { h with data := h.data.filter (fun e => e.1 != (s, r)) }

def insertSorted (x : Nat) : List Nat → List Nat
  | [] => [x]
  | y :: ys => if x ≤ y then x :: y :: ys else y :: insertSorted x ys
def sortNat (l : List Nat) : List Nat := l.foldr insertSorted []

/-- the report a host builds from its own state and Drummer's advertised versions (client/nodehost.go:99-152) -/
def Loop.buildReport (l : Loop) (h : Host) (count : Nat) : NodeHostInfo :=
  let sids := sortNat (h.running.map (·.shard))
  let infos := sids.filterMap fun sid =>
    match h.run? sid with
    | none => none
    | some r =>
      if r.applied < 0 then some { shardId := sid, replicaId := r.id, pending := true } else
      match l.group? sid with
      | none => none
      | some g =>
        match g.hist[r.applied.toNat]? with
        | none => none
        | some m =>
          let known := (l.db.image.find? sid).map (fun (c : Shard) => c.cci)
          match known with
          | some k => if k ≥ m.ver then some { shardId := sid, replicaId := r.id, cci := m.ver, incomplete := true }
                      else some { shardId := sid, replicaId := r.id, cci := m.ver, replicas := m.members }
          | none => some { shardId := sid, replicaId := r.id, cci := m.ver, replicas := m.members }
  let plogInc := count == 1 || count % 3 == 0
  let keys := h.data.map (·.1)
  let sortedKeys := (sortNat (keys.map fun (s, r) => s * 1000000000000 + r)).map fun k => (k / 1000000000000, k % 1000000000000)
  { raftAddress := h.addr, rpcAddress := "rpc-" ++ h.addr, region := "r", shardInfo := infos, shardIdList := sids,
    plogIncluded := plogInc, plogInfo := if plogInc then sortedKeys.map (fun (s, r) => { shardId := s, replicaId := r }) else [] }

def Loop.report (l : Loop) (a : Addr) (replyLost : Bool) : Outcome (Loop × Nat) :=
  match l.host? a with
  | none => .panic "no host"
  | some h =>
    let h1 := { h with reportCount := h.reportCount + 1 }
    match l.db.applyReport (l.buildReport h1 h1.reportCount) with
    | .panic w => .panic w
    | .ok (db', n) =>
      let h2 := if replyLost then h1 else { h1 with queue := h1.queue ++ db'.lookupRequests a }
      .ok (({ l with db := db' }).setHost h2, n)

def Loop.quorumRunning (l : Loop) (sid : Nat) : Bool :=
  match l.group? sid with
  | none => false
  | some g =>
    let m := g.cur
    let n := (m.members.filter fun (id, a) =>
      match l.host? a with
      | some h => h.up && (match h.run? sid with | some r => r.id == id | none => false)
      | none => false).length
    decide (n ≥ m.members.length / 2 + 1)

/-- dragonboat's admission rules for one membership change against the current membership -/
def changeMembers (cur : Membership) (r : Request) (id : Nat) : Option (List (Nat × Addr) × List Nat) :=
  if r.type == .add then
    match r.addressList.head? with
    | none => none
    | some na =>
      if cur.removed.contains id || cur.members.any (·.1 == id) || cur.members.any (·.2 == na) then none
      else some (cur.members ++ [(id, na)], cur.removed)
  else
    if !(cur.members.any (·.1 == id)) || cur.members.length == 1 then none
    else some (cur.members.filter (·.1 != id), id :: cur.removed)

/-- is the ordered config change applicable on this host right now? -/
def Loop.changeApplicable (l : Loop) (h : Host) (g : Group) (r : Request) : Option SimReplica :=
  match h.run? r.shardId with
  | none => none
  | some rep =>
    if !(g.cur.members.any (·.1 == rep.id)) then none
    else if r.confChangeId != g.cur.ver || !l.quorumRunning r.shardId then none
    else some rep

def Loop.execChange (l : Loop) (h : Host) (r : Request) : Loop :=
  match l.group? r.shardId, r.members.head? with
  | some g, some id =>
    match l.changeApplicable h g r with
    | none => l
    | some rep =>
      match changeMembers g.cur r id with
      | none => l
      | some (ms, rm) =>
        let g' : Group := { g with hist := g.hist ++ [{ ver := l.nextVer + 1, members := ms, removed := rm }] }
        (({ l with nextVer := l.nextVer + 1 }).setGroup g').setHost
          ((h.setRun { rep with applied := (g'.hist.length : Int) - 1 }).dataPut r.shardId rep.id ((g'.hist.length : Int) - 1))
  | _, _ => l

def Loop.execCreate (l : Loop) (h : Host) (r : Request) : Loop :=
  let sid := r.shardId
  let rid := r.instantiateReplicaId
  if (h.run? sid).isSome then l else
  if r.restore && !r.join then
    match h.dataGet sid rid with
    | none => l
    | some ap => l.setHost (h.setRun ⟨sid, rid, ap⟩)
  else if r.join then
    l.setHost ((h.setRun ⟨sid, rid, (h.dataGet sid rid).getD (-1)⟩).dataPut sid rid ((h.dataGet sid rid).getD (-1)))
  else
    if (h.dataGet sid rid).isSome then l else
    (if (l.group? sid).isSome then l else
      ({ l with nextVer := l.nextVer + 1 }).setGroup
        { shard := sid, hist := [{ ver := l.nextVer + 1, members := r.replicaIdList.zip r.addressList, removed := [] }] }).setHost
      ((h.setRun ⟨sid, rid, 0⟩).dataPut sid rid 0)

def Loop.execKill (l : Loop) (h : Host) (r : Request) : Loop :=
  match r.members.head?, h.run? r.shardId with
  | some rid, some rep =>
    if rep.id == rid then
      l.setHost (({ h with running := h.running.filter (·.shard != r.shardId) }).dataDel r.shardId rid) else l
  | _, _ => l

/-- one received request executed on host `a` (client/nodehost.go:258-443 + the dragonboat rules of Section 4.3) -/
def Loop.exec1 (l : Loop) (a : Addr) (r : Request) : Loop :=
  match l.host? a with
  | none => l
  | some h =>
    match r.type with
    | .create => l.execCreate h r
    | .kill => l.execKill h r
    | _ => l.execChange h r

def Loop.execute (l : Loop) (a : Addr) : Loop :=
  match l.host? a with
  | none => l
  | some h =>
    let q := h.queue
    q.foldl (fun l r => l.exec1 a r) (l.setHost { h with queue := [] })

def Loop.progress (l : Loop) (a : Addr) (all : Bool) : Loop :=
  match l.host? a with
  | none => l
  | some h =>
    let h' := h.running.foldl (fun (hh : Host) r =>
      match l.group? r.shard with
      | none => hh
      | some g =>
        if !l.quorumRunning r.shard then hh else
        let last : Int := (g.hist.length : Int) - 1
        if r.applied < last then
          let ap := if all then last else r.applied + 1
          (hh.setRun { r with applied := ap }).dataPut r.shard r.id ap
        else hh) h
    l.setHost h'

def Loop.crash (l : Loop) (a : Addr) : Loop :=
  match l.host? a with
  | none => l
  | some h => l.setHost { h with up := false, running := [], queue := [], reportCount := 0 }

def Loop.restart (l : Loop) (a : Addr) : Loop :=
  match l.host? a with
  | none => l
  | some h => l.setHost { h with up := true }

/-- dragonboat stops a replica as soon as it applies its own removal, from the log (node.go `applyConfigChange`) or
    from a snapshot whose membership lists it as removed (`restoreRemotes`): has replica `r` applied such a membership? -/
def Loop.appliedOwnRemoval (l : Loop) (r : SimReplica) : Bool :=
  match l.group? r.shard with
  | none => false
  | some g =>
    if r.applied < 0 then false else
    match g.hist[r.applied.toNat]? with
    | none => false
    | some m => m.removed.contains r.id

/-- the replicas of host `a` that have applied their own removal stop (their data stays); part of every `execute` and
    `progress` event of the fleet -/
def Loop.settle (l : Loop) (a : Addr) : Loop :=
  match l.host? a with
  | none => l
  | some h => l.setHost { h with running := h.running.filter fun r => !l.appliedOwnRemoval r }

end Drummer
