/-! program-order facts as data, and the decidable order predicates the concurrency theorems are generic over -/
namespace Drummer

inductive Act
  | setBusy | setIdle | setStopped | rpc | recordFailed | recordCompleted | recordInvoked | spawn | unknown
  deriving DecidableEq, Repr

inductive Prog
  | call (a : Act)
  | defer (a : Act)
  | other
  | spawn (body : Prog)
  | onErr (e ok : Prog)
  | seq (ps : List Prog)

mutual
/-- every path through the skeleton: (actions in order, deferred actions — last deferred first) -/
def Prog.runs : Prog → List (List Act × List Act)
  | .call a => [([a], [])]
  | .defer a => [([], [a])]
  | .other => [([], [])]
  | .spawn _ => [([Act.spawn], [])]
  | .onErr e ok => e.runs ++ ok.runs
  | .seq ps => Prog.runsList ps
def Prog.runsList : List Prog → List (List Act × List Act)
  | [] => [([], [])]
  | p :: ps => p.runs.flatMap fun (a, d) => (Prog.runsList ps).map fun (a', d') => (a ++ a', d' ++ d)
end

def Prog.traces (p : Prog) : List (List Act) := p.runs.map fun (a, d) => a ++ d

mutual
def Prog.spawned : Prog → List Prog
  | .spawn b => [b]
  | .onErr e ok => e.spawned ++ ok.spawned
  | .seq ps => Prog.spawnedList ps
  | _ => []
def Prog.spawnedList : List Prog → List Prog
  | [] => []
  | p :: ps => p.spawned ++ Prog.spawnedList ps
end

/-- in trace `t`, every occurrence of `b` is preceded by an occurrence of `a` -/
def precedes (a b : Act) : List Act → Bool
  | [] => true
  | x :: xs => if x == b then false else if x == a then true else precedes a b xs

def lastIs (a : Act) (t : List Act) : Bool := t.getLast? == some a

/-- the order facts the M-LCM theorems assume of a `Start*` procedure -/
def StartOK (p : Prog) : Bool :=
  p.traces.all (precedes .setBusy .spawn) &&
  p.spawned.length == 1 &&
  p.spawned.all fun b =>
    b.traces.all (fun t => precedes .rpc .recordFailed t && precedes .rpc .recordCompleted t &&
      precedes .setStopped .recordFailed t && lastIs .setIdle t &&
      (t.contains .recordFailed || t.contains .recordCompleted) && !(t.contains .recordFailed && t.contains .recordCompleted))

end Drummer
