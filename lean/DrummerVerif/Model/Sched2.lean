import DrummerVerif.Model.Db
/-! M-SCHED executable prototype (scheduler.go, filter.go, selector.go, validation.go, drummer.go:458-490) -/
namespace Drummer

inductive SRes (α : Type)
  | ok (a : α) (draws : List Nat)
  | error (why : String)
  | panic (why : String)

structure ShardRepair where
  shard : Shard
  failed : List Replica
  ok : List Replica
  toStart : List Replica

def ShardRepair.quorum (cr : ShardRepair) : Nat := (cr.failed.length + cr.ok.length + cr.toStart.length) / 2 + 1
def ShardRepair.available (cr : ShardRepair) : Bool := decide (cr.ok.length ≥ cr.quorum)
def ShardRepair.addRequired (cr : ShardRepair) : Bool :=
  decide (cr.failed.length > 0) && decide (cr.toStart.length = 0) && cr.available
def ShardRepair.createRequired (cr : ShardRepair) : Bool := decide (cr.toStart.length > 0)
def ShardRepair.deleteRequired (cr : ShardRepair) (size : Nat) : Bool :=
  cr.available && decide (cr.failed.length > 0) && decide (cr.failed.length + cr.ok.length > size)
def ShardRepair.needToBeRestored (cr : ShardRepair) : Bool := !(cr.available || decide (cr.toStart.length > 0))

structure Regions where
  region : List String
  count : List Nat

structure Ctx where
  tick : Nat
  defs : List ShardDef           -- s.shards in Go iteration order
  regions : Option Regions
  hosts : List HostSpec          -- nodeHostList in Go iteration order
  allHosts : List HostSpec       -- multiNodeHost (lookup by address)
  repairs : List ShardRepair     -- shardsToRepair in Go iteration order
  toKill : List KillEntry

def unknownRegion : String := "UNKNOWN"

def HostSpec.available (h : HostSpec) (tick : Nat) : Bool := !entityFailed h.tick tick
def HostSpec.hasLog (h : HostSpec) (sid rid : Nat) : Bool := h.plog.any fun l => l.shardId == sid && l.replicaId == rid
def liveFilter (tick gap : Nat) (h : HostSpec) : Bool := decide (usub64 tick h.tick < gap)
def basicFilter (sid : Nat) (h : HostSpec) : Bool := !h.shards.contains sid

/-- the rejection-sampling loop of `findSuitableNodeHost` -/
def pickDistinct (n count : Nat) : List Nat → List Nat → Option (List Nat × List Nat)
  | sel, draws =>
    if sel.length = count then some (sel.reverse, draws) else
    match draws with
    | [] => none
    | d :: ds => if sel.contains (d % n) then pickDistinct n count sel ds else pickDistinct n count ((d % n) :: sel) ds

def findSuitable (hosts : List HostSpec) (p : HostSpec → Bool) (count : Nat) (draws : List Nat) :
    Option (List HostSpec × List Nat) :=
  let filtered := hosts.filter p
  if filtered.length < count then some ([], draws) else
  match pickDistinct filtered.length count [] draws with
  | none => none
  | some (idx, rest) => some (idx.filterMap (filtered[·]?), rest)

def Ctx.def? (cx : Ctx) (sid : Nat) : Option ShardDef := cx.defs.find? (·.shardId == sid)

def createReq (n : Replica) (c : Shard) (app : String) (join restore : Bool) : Request :=
  { type := .create, shardId := c.shardId, members := c.replicas.map (·.replicaId),
    replicaIdList := c.replicas.map (·.replicaId), addressList := c.replicas.map (·.address),
    instantiateReplicaId := n.replicaId, raftAddress := n.address, join := join, restore := restore, appName := app }

def restorable (cx : Ctx) (cr : ShardRepair) : List Replica :=
  cr.failed.filter fun n => match hostFind? cx.allHosts n.address with
    | some h => h.available cx.tick && h.hasLog n.shardId n.replicaId
    | none => false

/-- requests for a list of replicas to restore; `getAppName` panics for an undefined shard -/
def restoreReqs (cx : Ctx) (cr : ShardRepair) (nl : List Replica) : Outcome (List Request) :=
  if nl.isEmpty then .ok [] else
  match cx.def? cr.shard.shardId with
  | none => .panic "failed to locate the shard"
  | some d => .ok (nl.map (createReq · cr.shard d.appName false true))

/-- generic sequencing of per-entry outcomes -/
def Outcome.map {α β : Type} (f : α → β) : Outcome α → Outcome β
  | .ok a => .ok (f a)
  | .panic w => .panic w

def concatOutcome {α β : Type} (f : α → Outcome (List β)) : List α → Outcome (List β)
  | [] => .ok []
  | a :: rest =>
    match f a with
    | .panic w => .panic w
    | .ok bs =>
      match concatOutcome f rest with
      | .panic w => .panic w
      | .ok bs' => .ok (bs ++ bs')

/-- does `restoreUnavailableShards` handle this entry (and mark the shard as done)? -/
def ShardRepair.restoreNow (cx : Ctx) (cr : ShardRepair) : Bool :=
  cr.needToBeRestored && decide (cr.ok.length + (restorable cx cr).length ≥ cr.quorum)

def restoreUnavailable1 (cx : Ctx) (cr : ShardRepair) : Outcome (List Request) :=
  if cr.restoreNow cx then restoreReqs cx cr (restorable cx cr) else .ok []

def doneShards (cx : Ctx) : List Nat :=
  (cx.repairs.filter fun cr => cr.restoreNow cx && !(restorable cx cr).isEmpty).map (·.shard.shardId)

def restoreFailed1 (cx : Ctx) (done : List Nat) (cr : ShardRepair) : Outcome (List Request) :=
  if cr.needToBeRestored || done.contains cr.shard.shardId then .ok [] else restoreReqs cx cr (restorable cx cr)

def restore (cx : Ctx) : Outcome (List Request) :=
  match concatOutcome (restoreUnavailable1 cx) cx.repairs with
  | .panic w => .panic w
  | .ok u =>
    match concatOutcome (restoreFailed1 cx (doneShards cx)) cx.repairs with
    | .panic w => .panic w
    | .ok f => .ok (u ++ f)

def nth? {α : Type} (l : List α) (i : Nat) : Option α := l[i]?

def sameRegionFilter (cx : Ctx) (failed : Replica) (h : HostSpec) : Bool :=
  liveFilter cx.tick nodeHostTTL h && basicFilter failed.shardId h &&
    decide (h.region = match hostFind? cx.allHosts failed.address with | some fh => fh.region | none => unknownRegion)

def anyRegionFilter (cx : Ctx) (failed : Replica) (h : HostSpec) : Bool :=
  liveFilter cx.tick nodeHostTTL h && basicFilter failed.shardId h

def single? {α : Type} : List α → Option α
  | [a] => some a
  | _ => none

/-- `getReplacementNode`: same region first, then any suitable host -/
def replacement (cx : Ctx) (failed : Replica) (draws : List Nat) : Option (Option HostSpec × List Nat) :=
  match findSuitable cx.hosts (sameRegionFilter cx failed) 1 draws with
  | none => none
  | some (l, rest) =>
    match single? l with
    | some h => some (some h, rest)
    | none =>
      match findSuitable cx.hosts (anyRegionFilter cx failed) 1 rest with
      | none => none
      | some (l2, rest2) => some (single? l2, rest2)

def deleteReq (cr : ShardRepair) (t via : Replica) : Request :=
  { type := .delete, shardId := cr.shard.shardId, members := [t.replicaId], confChangeId := cr.shard.cci,
    raftAddress := via.address }

def addReq (cr : ShardRepair) (h : HostSpec) (via : Replica) (newId : Nat) : Request :=
  { type := .add, shardId := cr.shard.shardId, members := [newId], confChangeId := cr.shard.cci,
    raftAddress := via.address, addressList := [h.address] }

def deleteOne (cr : ShardRepair) (draws : List Nat) : SRes (List Request) :=
  match cr.failed, draws with
  | [], _ => .panic "index out of range"
  | _, [] => .panic "exhausted"
  | t :: _, dr :: draws' =>
    match nth? cr.ok (dr % cr.ok.length) with
    | none => .panic "index out of range"
    | some via => .ok [deleteReq cr t via] draws'

def createOne (cr : ShardRepair) (d : ShardDef) (draws : List Nat) : SRes (List Request) :=
  match cr.toStart with
  | [] => .panic "index out of range"
  | t :: _ => .ok [createReq t cr.shard d.appName true false] draws

/-- the redraw loop for the replacement id (repaired, F-C02): the first draw that is non-zero and not the id of a
    current member; `none` = ran out of scripted draws -/
def freshId (c : Shard) : List Nat → Option (Nat × List Nat)
  | [] => none
  | d :: ds => if d != 0 && !(c.replicas.any (·.replicaId == d)) then some (d, ds) else freshId c ds

def addOne (cx : Ctx) (cr : ShardRepair) (draws : List Nat) : SRes (List Request) :=
  match cr.failed with
  | [] => .panic "index out of range"
  | f :: _ =>
    match replacement cx f draws with
    | none => .panic "exhausted"
    | some (none, _) => .error "not enough node host"
    | some (some h, d1 :: draws1) =>
      match freshId cr.shard draws1 with
      | none => .panic "exhausted"
      | some (d2, draws2) =>
        match nth? cr.ok (d1 % cr.ok.length) with
        | none => .panic "index out of range"
        | some via => .ok [addReq cr h via d2] draws2
    | some (some _, []) => .panic "exhausted"

/-- the if / else-if chain of `repair` for one shard -/
def repairOne (cx : Ctx) (cr : ShardRepair) (draws : List Nat) : SRes (List Request) :=
  match cx.def? cr.shard.shardId with
  | none => .panic "failed to locate the shard"
  | some d =>
    if cr.deleteRequired d.members.length then deleteOne cr draws
    else if cr.createRequired then createOne cr d draws
    else if cr.addRequired then addOne cx cr draws
    else .ok [] draws

def repair (cx : Ctx) (restored : List Nat) : List ShardRepair → List Nat → SRes (List Request)
  | [], draws => .ok [] draws
  | cr :: rest, draws =>
    if restored.contains cr.shard.shardId then repair cx restored rest draws else
    match repairOne cx cr draws with
    | .panic w => .panic w
    | .error w => .error w
    | .ok one dr =>
      match repair cx restored rest dr with
      | .ok rs dr' => .ok (one ++ rs) dr'
      | e => e

def killReqs (cx : Ctx) : List Request :=
  cx.toKill.map fun k => { type := .kill, shardId := k.shardId, members := [k.replicaId], raftAddress := k.address }

/-- validation.go: returns true when `validateNodeHostRequest` would panic -/
def invalid (r : Request) : Bool :=
  (if r.type == .add then r.addressList.length != 1 else r.replicaIdList.length != r.addressList.length) ||
  r.replicaIdList.any (· == 0) || r.addressList.any (·.isEmpty) || r.raftAddress.isEmpty ||
  (match r.type with
   | .create => r.instantiateReplicaId == 0 || r.appName.isEmpty || r.replicaIdList.isEmpty
   | _ => r.members.isEmpty || r.members.head? == some 0 || r.shardId == 0)

def maintain (cx : Ctx) (draws : List Nat) : SRes (List Request) :=
  match restore cx with
  | .panic w => .panic w
  | .ok rs =>
    let restored := rs.map (·.shardId)
    match repair cx restored cx.repairs draws with
    | .ok rp dr =>
      let all := rs ++ rp ++ killReqs cx
      if all.any invalid then .panic "validate" else .ok all dr
    | e => e

/-! launch -/
def launchShard (cx : Ctx) (d : ShardDef) (rg : Regions) : List String → Nat → List HostSpec → List Nat →
    SRes (List HostSpec)
  | [], _, sel, draws => .ok sel draws
  | reg :: regs, idx, sel, draws =>
    match rg.count[idx]? with
    | none => .panic "index out of range"
    | some cnt =>
      -- int(count) of a huge uint64 is negative in Go; the generator stays below 2^31
      let p := fun h => liveFilter cx.tick nodeHostTTL h && basicFilter d.shardId h && decide (h.region = reg)
      match findSuitable cx.hosts p cnt draws with
      | none => .panic "exhausted"
      | some (hs, rest) => launchShard cx d rg regs (idx + 1) (sel ++ hs) rest

def launchAll (cx : Ctx) (rg : Regions) : List ShardDef → List Nat → SRes (List Request)
  | [], draws => .ok [] draws
  | d :: ds, draws =>
    match launchShard cx d rg rg.region 0 [] draws with
    | .panic w => .panic w
    | .error w => .error w
    | .ok sel rest =>
      if sel.length < d.members.length then .error "not enough nodehost in suitable regions" else
      if sel.length > d.members.length then .panic "index out of range" else
      let addrs := (sel.take d.members.length).map (·.address)
      let reqs := (d.members.zip sel).map fun (m, h) =>
        ({ type := .create, shardId := d.shardId, members := d.members, replicaIdList := d.members,
           addressList := addrs, instantiateReplicaId := m, raftAddress := h.address, appName := d.appName } : Request)
      match launchAll cx rg ds rest with
      | .ok rs dr => .ok (reqs ++ rs) dr
      | e => e

def launch (cx : Ctx) (draws : List Nat) : SRes (List Request) :=
  match cx.regions with
  | none => if cx.defs.isEmpty then .ok [] draws else .panic "nil pointer dereference"
  | some rg => launchAll cx rg cx.defs draws

end Drummer
