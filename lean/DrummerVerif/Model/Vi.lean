/-! varint prototype: Colfer length prefix -/
namespace V

/-- MarshalTo loop: `for x >= 0x80 { buf[i] = byte(x | 0x80); x >>= 7 }; buf[i] = byte(x)` -/
def enc (x : Nat) : List UInt8 :=
  if h : x ≥ 128 then UInt8.ofNat (x % 128 + 128) :: enc (x / 128) else [UInt8.ofNat x]
termination_by x
decreasing_by omega

inductive R | ok (x : Nat) (rest : List UInt8) | eof

/-- Unmarshal continuation loop after the first byte ≥ 0x80 :
   `for shift := 7; ; shift += 7 { b := data[i]; if b < 0x80 { x |= b << shift; break }; x |= (b & 0x7f) << shift }`
   modelled with 64-bit wrap: contributions at shift ≥ 64 vanish. -/
def shl64 (b s : Nat) : Nat := if s ≥ 64 then 0 else (b * 2 ^ s) % 18446744073709551616

def decLoop (x shift : Nat) : List UInt8 → R
  | [] => .eof
  | b :: rest =>
    if b.toNat < 128 then .ok (x ||| shl64 b.toNat shift) rest
    else decLoop (x ||| shl64 (b.toNat % 128) shift) (shift + 7) rest

def dec : List UInt8 → R
  | [] => .eof
  | b :: rest => if b.toNat < 128 then .ok b.toNat rest else decLoop (b.toNat % 128) 7 rest

#eval enc 300
#eval match dec (enc 16777216 ++ [7]) with | .ok x r => (x, r) | .eof => (0, [])

theorem or_eq_add (x b s : Nat) (hx : x < 2 ^ s) : x ||| (b * 2 ^ s) = x + b * 2 ^ s := by
  rw [Nat.mul_comm b, Nat.add_comm, Nat.two_pow_add_eq_or_of_lt hx b, Nat.or_comm]

theorem u8 (n : Nat) (h : n < 256) : (UInt8.ofNat n).toNat = n := by
  simp [Nat.mod_eq_of_lt h]

theorem dec_enc_2 (x : Nat) (rest : List UInt8) (h1 : 128 ≤ x) (h2 : x < 16384) :
    dec (enc x ++ rest) = .ok x rest := by
  rw [enc]; simp only [h1, ge_iff_le, dite_true]
  rw [enc]; have : ¬ (x / 128 ≥ 128) := by omega
  simp only [this, dite_false, List.cons_append, List.nil_append, dec, decLoop]
  rw [u8 _ (by omega), u8 _ (by omega)]
  have a1 : ¬ (x % 128 + 128 < 128) := by omega
  have a2 : x / 128 < 128 := by omega
  simp only [a1, a2, if_false, if_true, shl64]
  have : ¬ (7 ≥ 64) := by omega
  simp only [this, if_false]
  have e : (x / 128 * 2 ^ 7) % 18446744073709551616 = x / 128 * 2 ^ 7 := by
    apply Nat.mod_eq_of_lt; omega
  rw [e, or_eq_add _ _ 7 (by omega)]
  congr 1
  omega

#print axioms dec_enc_2
end V
