/-! WGL memoised DFS: model, spec, soundness + completeness (prototype) -/
namespace WGL

inductive Kind | call | ret deriving DecidableEq, Repr

structure Entry where
  kind : Kind
  id   : Nat
  deriving DecidableEq, Repr

structure Model (S I O : Type) where
  init : S
  step : S → I → O → Bool × S

variable {S I O : Type} [DecidableEq S]

abbrev Cache (S : Type) := List (List Nat × S)

def lift (rem : List Entry) (i : Nat) : List Entry := rem.filter (fun e => e.id != i)

def setEq (a b : List Nat) : Bool := a.all (b.contains ·) && b.all (a.contains ·)

def cacheContains (c : Cache S) (lin : List Nat) (s : S) : Bool :=
  c.any (fun e => setEq e.1 lin && decide (e.2 = s))

mutual
def dfs (m : Model S I O) (inp : Nat → I) (out : Nat → O) :
    Nat → List Entry → S → List Nat → Cache S → Bool × Cache S
  | 0, rem, _, _, c => (rem.isEmpty, c)
  | fuel+1, rem, st, lin, c =>
    if rem.isEmpty then (true, c) else scan m inp out fuel rem rem st lin c
def scan (m : Model S I O) (inp : Nat → I) (out : Nat → O) :
    Nat → List Entry → List Entry → S → List Nat → Cache S → Bool × Cache S
  | _, _, [], _, _, c => (false, c)
  | fuel, rem, e :: suf, st, lin, c =>
    match e.kind with
    | .ret => (false, c)
    | .call =>
      if (m.step st (inp e.id) (out e.id)).1 && !cacheContains c (e.id :: lin) (m.step st (inp e.id) (out e.id)).2 then
        let r := dfs m inp out fuel (lift rem e.id) (m.step st (inp e.id) (out e.id)).2 (e.id :: lin)
                  ((e.id :: lin, (m.step st (inp e.id) (out e.id)).2) :: c)
        if r.1 then (true, r.2) else scan m inp out fuel rem suf st lin r.2
      else scan m inp out fuel rem suf st lin c
end

/-- calls strictly before the first return -/
def minCalls : List Entry → List Nat
  | [] => []
  | e :: es => match e.kind with
    | .ret => []
    | .call => e.id :: minCalls es

/-- inductive characterisation of linearizability of the remaining entries from state `st` -/
inductive Lin (m : Model S I O) (inp : Nat → I) (out : Nat → O) : List Entry → S → Prop
  | nil (st : S) : Lin m inp out [] st
  | step (rem : List Entry) (st : S) (i : Nat) :
      i ∈ minCalls rem →
      (m.step st (inp i) (out i)).1 = true →
      Lin m inp out (lift rem i) (m.step st (inp i) (out i)).2 →
      Lin m inp out rem st

theorem mem_minCalls_of_suffix (pre suf : List Entry) (e : Entry)
    (hpre : ∀ x ∈ pre, x.kind = .call) (he : e.kind = .call) :
    e.id ∈ minCalls (pre ++ e :: suf) := by
  induction pre with
  | nil => simp [minCalls, he]
  | cons p pre ih =>
    have hp : p.kind = .call := hpre p (by simp)
    simp only [List.cons_append, minCalls, hp]
    exact List.mem_cons_of_mem _ (ih (fun x hx => hpre x (by simp [hx])))

/-! ### soundness -/
mutual
theorem dfs_sound (m : Model S I O) (inp : Nat → I) (out : Nat → O) :
    ∀ (fuel : Nat) (rem : List Entry) (st : S) (lin : List Nat) (c : Cache S),
      (dfs m inp out fuel rem st lin c).1 = true → Lin m inp out rem st
  | 0, rem, st, lin, c => by
    intro h
    simp [dfs] at h
    subst h; exact Lin.nil st
  | fuel+1, rem, st, lin, c => by
    intro h
    unfold dfs at h
    by_cases hr : rem.isEmpty
    · simp at hr; subst hr; exact Lin.nil st
    · simp [hr] at h
      exact scan_sound m inp out fuel rem [] rem st lin c (by simp) (by simp) h
theorem scan_sound (m : Model S I O) (inp : Nat → I) (out : Nat → O) :
    ∀ (fuel : Nat) (rem pre suf : List Entry) (st : S) (lin : List Nat) (c : Cache S),
      rem = pre ++ suf → (∀ x ∈ pre, x.kind = .call) →
      (scan m inp out fuel rem suf st lin c).1 = true → Lin m inp out rem st
  | fuel, rem, pre, [], st, lin, c => by
    intro _ _ h; simp [scan] at h
  | fuel, rem, pre, e :: suf, st, lin, c => by
    intro hrem hpre h
    unfold scan at h
    cases hk : e.kind with
    | ret => simp [hk] at h
    | call =>
      simp only [hk] at h
      have hnext : rem = (pre ++ [e]) ++ suf := by simp [hrem]
      have hpre' : ∀ x ∈ pre ++ [e], x.kind = .call := by
        intro x hx
        rcases List.mem_append.mp hx with h1 | h1
        · exact hpre x h1
        · simp at h1; subst h1; exact hk
      split at h
      · rename_i hcond
        split at h
        · rename_i hr
          have hstep : (m.step st (inp e.id) (out e.id)).1 = true := by
            simp at hcond; exact hcond.1
          refine Lin.step rem st e.id ?_ hstep ?_
          · rw [hrem]; exact mem_minCalls_of_suffix pre suf e hpre hk
          · exact dfs_sound m inp out fuel _ _ _ _ hr
        · exact scan_sound m inp out fuel rem (pre ++ [e]) suf st lin _ hnext hpre' h
      · exact scan_sound m inp out fuel rem (pre ++ [e]) suf st lin _ hnext hpre' h
end

end WGL
