import DrummerVerif.Lemmas.C01
import DrummerVerif.Lemmas.C01X
import DrummerVerif.Lemmas.C01N
import DrummerVerif.Lemmas.Stamp
import DrummerVerif.Lemmas.C02Events
/-!
# C01 — self-healing: the control loop restores every shard after faults stop (PARTIAL: safety invariants and per-round progress lemmas; the convergence bound is decided by the correspondence run, see DESIGN.md)

Property theorems only; every proof is a reference to a lemma in `Lemmas/`. The statement printed here is
the full statement (all quantifiers explicit).
-/
namespace Drummer
namespace C01

theorem every_restorable_member_gets_a_restore :
    ∀ (cx : Ctx) (rs : List Request),
      restore cx = Outcome.ok rs →
        ∀ (cr : ShardRepair),
          cr ∈ cx.repairs →
            ShardRepair.restoreNow cx cr = true ∨
                ShardRepair.needToBeRestored cr = false ∧ List.contains (doneShards cx) cr.shard.shardId = false →
              ∀ (n : Replica),
                n ∈ restorable cx cr →
                  ∀ (d : ShardDef), Ctx.def? cx cr.shard.shardId = some d → createReq n cr.shard d.appName false true ∈ rs :=
  @_root_.Drummer.restore_complete

theorem every_repairable_shard_is_handled :
    ∀ (cx : Ctx) (restored : List Nat) (l : List ShardRepair) (draws : List Nat) (rs : List Request)
      (rest : List Nat),
      repair cx restored l draws = SRes.ok rs rest →
        ∀ (cr : ShardRepair),
          cr ∈ l →
            List.contains restored cr.shard.shardId = false →
              ∃ dr one dr', repairOne cx cr dr = SRes.ok one dr' ∧ ∀ (r : Request), r ∈ one → r ∈ rs :=
  @_root_.Drummer.repair_includes

theorem waiting_member_gets_its_start_request :
    ∀ (cx : Ctx) (cr : ShardRepair) (draws : List Nat) (one : List Request) (rest : List Nat)
      (d : ShardDef),
      Ctx.def? cx cr.shard.shardId = some d →
        ShardRepair.deleteRequired cr (List.length d.members) = false →
          ∀ (t : Replica) (tt : List Replica),
            cr.toStart = t :: tt →
              repairOne cx cr draws = SRes.ok one rest → one = [createReq t cr.shard d.appName true false] :=
  @_root_.Drummer.create_progress

theorem sequencing_is_complete :
    ∀ {α β : Type} (f : α → Outcome (List β)) (l : List α) (bs : List β),
      concatOutcome f l = Outcome.ok bs →
        ∀ (a : α), a ∈ l → ∀ (one : List β), f a = Outcome.ok one → ∀ (b : β), b ∈ one → b ∈ bs :=
  @_root_.Drummer.concatOutcome_complete

theorem restore_request_restarts_from_data :
    ∀ (l : Loop) (h : Host) (r : Request) (ap : Int),
      Host.run? h r.shardId = none →
        r.restore = true →
          r.join = false →
            Host.dataGet h r.shardId r.instantiateReplicaId = some ap →
              Loop.execCreate l h r =
                Loop.setHost l (Host.setRun h { shard := r.shardId, id := r.instantiateReplicaId, applied := ap }) :=
  @_root_.Drummer.execCreate_restore_runs

theorem join_request_starts_replica :
    ∀ (l : Loop) (h : Host) (r : Request),
      Host.run? h r.shardId = none →
        r.join = true →
          ∃ h',
            Loop.execCreate l h r = Loop.setHost l h' ∧
              Host.run? h' r.shardId =
                some
                  { shard := r.shardId, id := r.instantiateReplicaId,
                    applied := Option.getD (Host.dataGet h r.shardId r.instantiateReplicaId) (-1) } :=
  @_root_.Drummer.execCreate_join_runs

theorem healed_fleet_receives_nothing :
    ∀ (cx : Ctx) (draws : List Nat), cx.repairs = [] → cx.toKill = [] → maintain cx draws = SRes.ok [] draws :=
  @_root_.Drummer.healed_quiet

theorem report_stamps_every_listed_member :
    ∀ (mc mc' : MultiShard) (nhi : NodeHostInfo),
      UniqueShards mc →
        MultiShard.update mc nhi = Outcome.ok mc' → UniqueShards mc' ∧ StampedBy nhi.lastTick nhi.shardInfo mc' :=
  @_root_.Drummer.update_stamps

theorem stamped_member_is_healthy :
    ∀ (r : Replica) (now : Nat),
      0 < now → now < 18446744073709551616 → r.tick = now → Replica.failed r now = false ∧ Replica.waiting r now = false :=
  @_root_.Drummer.stamped_is_ok

theorem safety_invariant_is_inductive :
    ∀ (size : Nat → Nat) (l l' : Loop), SysInv size l → Step size l l' → SysInv size l' :=
  @_root_.Drummer.step_inv

theorem safety_invariant_from_cold_start :
    ∀ (size : Nat → Nat) (l : Loop),
      l.groups = [] →
        (∀ (x : Host), x ∈ l.hosts → x.queue = []) →
          l.db.requests = [] → l.db.outgoing = [] → l.db.image.shards = [] → SysInv size l :=
  @_root_.Drummer.sysInv_cold

theorem fleet_model_follows_agent_table :
    ∀ (l : Loop) (h : Host) (r : Request),
      Host.run? h r.shardId = none →
        (r.join = false → r.restore = false → Option.isSome (Loop.group? l r.shardId) = false) →
          instantiate r.join r.restore (Option.isSome (Host.dataGet h r.shardId r.instantiateReplicaId)) ≠
              InstOutcome.panic →
            if
                InstOutcome.started
                    (instantiate r.join r.restore (Option.isSome (Host.dataGet h r.shardId r.instantiateReplicaId))) =
                  true then
              ∃ l' h',
                Loop.execCreate l h r = Loop.setHost l' h' ∧
                  Option.map (fun x => x.id) (Host.run? h' r.shardId) = some r.instantiateReplicaId
            else Loop.execCreate l h r = l :=
  @_root_.Drummer.execCreate_follows_table

theorem settle_is_step :
    ∀ (size : Nat → Nat) (l : Loop) (a : Addr), Step size l (Loop.settle l a) ∨ Loop.settle l a = l :=
  @_root_.Drummer.settle_step

theorem replica_that_applied_its_removal_stops :
    ∀ (l : Loop) (a : Addr) (h : Host),
      Loop.host? l a = some h →
        (Loop.settle l a).groups = l.groups ∧
          ∀ (h' : Host),
            Loop.host? (Loop.settle l a) a = some h' →
              ∀ (r : SimReplica), r ∈ h'.running → Loop.appliedOwnRemoval l r = false :=
  @_root_.Drummer.settle_spec

theorem never_silent_on_a_shard_that_needs_work :
    ∀ (cx : Ctx) (draws rest : List Nat) (rs : List Request),
      maintain cx draws = SRes.ok rs rest →
        ∀ (cr : ShardRepair),
          cr ∈ cx.repairs →
            (∀ (cr' : ShardRepair), cr' ∈ cx.repairs → cr'.shard.shardId = cr.shard.shardId → cr' = cr) →
              ∀ (d : ShardDef),
                Ctx.def? cx cr.shard.shardId = some d →
                  cr.failed ≠ [] ∨ cr.toStart ≠ [] →
                    (∀ (n : Replica), n ∈ cr.failed → n ∈ restorable cx cr) →
                      ∃ r, r ∈ rs ∧ r.shardId = cr.shard.shardId ∧ r.type = ReqType.create :=
  @_root_.Drummer.maintain_not_silent

end C01
end Drummer
