import DrummerVerif.Lemmas.C01
import DrummerVerif.Lemmas.C01X
import DrummerVerif.Lemmas.C01N
import DrummerVerif.Lemmas.Stamp
import DrummerVerif.Lemmas.C02Events
import DrummerVerif.Lemmas.Applied
import DrummerVerif.Lemmas.C01M
import DrummerVerif.Lemmas.C01R
import DrummerVerif.Lemmas.C05S
import DrummerVerif.Lemmas.C01T
import DrummerVerif.Lemmas.Quiet
import DrummerVerif.Lemmas.C01H
import DrummerVerif.Lemmas.C01E
import DrummerVerif.Lemmas.C01P
import DrummerVerif.Lemmas.Cadence
import DrummerVerif.Lemmas.Renew
import DrummerVerif.Lemmas.Rounds
import DrummerVerif.Lemmas.C01F
import DrummerVerif.Lemmas.C01A
import DrummerVerif.Lemmas.C01J
/-!
# C01 — self-healing: the control loop restores every shard after faults stop (PARTIAL: safety invariants and per-round progress lemmas; the convergence bound is decided by the correspondence run, see DESIGN.md)

Property theorems only; every proof is a reference to a lemma in `Lemmas/`. The statement printed here is
the full statement (all quantifiers explicit).
-/
namespace Drummer
namespace C01

theorem every_restorable_member_gets_a_restore :
    ∀ (cx : Ctx) (rs : List Request),
      restore cx = Outcome.ok rs →
        ∀ (cr : ShardRepair),
          cr ∈ cx.repairs →
            ShardRepair.restoreNow cx cr = true ∨
                ShardRepair.needToBeRestored cr = false ∧ List.contains (doneShards cx) cr.shard.shardId = false →
              ∀ (n : Replica),
                n ∈ restorable cx cr →
                  ∀ (d : ShardDef), Ctx.def? cx cr.shard.shardId = some d → createReq n cr.shard d.appName false true ∈ rs :=
  @_root_.Drummer.restore_complete

theorem every_repairable_shard_is_handled :
    ∀ (cx : Ctx) (restored : List Nat) (l : List ShardRepair) (draws : List Nat) (rs : List Request)
      (rest : List Nat),
      repair cx restored l draws = SRes.ok rs rest →
        ∀ (cr : ShardRepair),
          cr ∈ l →
            List.contains restored cr.shard.shardId = false →
              ∃ dr one dr', repairOne cx cr dr = SRes.ok one dr' ∧ ∀ (r : Request), r ∈ one → r ∈ rs :=
  @_root_.Drummer.repair_includes

theorem waiting_member_gets_its_start_request :
    ∀ (cx : Ctx) (cr : ShardRepair) (draws : List Nat) (one : List Request) (rest : List Nat)
      (d : ShardDef),
      Ctx.def? cx cr.shard.shardId = some d →
        ShardRepair.deleteRequired cr (List.length d.members) = false →
          ∀ (t : Replica) (tt : List Replica),
            cr.toStart = t :: tt →
              repairOne cx cr draws = SRes.ok one rest → one = [createReq t cr.shard d.appName true false] :=
  @_root_.Drummer.create_progress

theorem sequencing_is_complete :
    ∀ {α β : Type} (f : α → Outcome (List β)) (l : List α) (bs : List β),
      concatOutcome f l = Outcome.ok bs →
        ∀ (a : α), a ∈ l → ∀ (one : List β), f a = Outcome.ok one → ∀ (b : β), b ∈ one → b ∈ bs :=
  @_root_.Drummer.concatOutcome_complete

theorem restore_request_restarts_from_data :
    ∀ (l : Loop) (h : Host) (r : Request) (ap : Int),
      Host.run? h r.shardId = none →
        r.restore = true →
          r.join = false →
            Host.dataGet h r.shardId r.instantiateReplicaId = some ap →
              Loop.execCreate l h r =
                Loop.setHost l (Host.setRun h { shard := r.shardId, id := r.instantiateReplicaId, applied := ap }) :=
  @_root_.Drummer.execCreate_restore_runs

theorem join_request_starts_replica :
    ∀ (l : Loop) (h : Host) (r : Request),
      Host.run? h r.shardId = none →
        r.join = true →
          ∃ h',
            Loop.execCreate l h r = Loop.setHost l h' ∧
              Host.run? h' r.shardId =
                some
                  { shard := r.shardId, id := r.instantiateReplicaId,
                    applied := Option.getD (Host.dataGet h r.shardId r.instantiateReplicaId) (-1) } :=
  @_root_.Drummer.execCreate_join_runs

theorem healed_fleet_receives_nothing :
    ∀ (cx : Ctx) (draws : List Nat), cx.repairs = [] → cx.toKill = [] → maintain cx draws = SRes.ok [] draws :=
  @_root_.Drummer.healed_quiet

theorem report_stamps_every_listed_member :
    ∀ (mc mc' : MultiShard) (nhi : NodeHostInfo),
      UniqueShards mc →
        MultiShard.update mc nhi = Outcome.ok mc' → UniqueShards mc' ∧ StampedBy nhi.lastTick nhi.shardInfo mc' :=
  @_root_.Drummer.update_stamps

theorem stamped_member_is_healthy :
    ∀ (r : Replica) (now : Nat),
      0 < now → now < 18446744073709551616 → r.tick = now → Replica.failed r now = false ∧ Replica.waiting r now = false :=
  @_root_.Drummer.stamped_is_ok

theorem safety_invariant_is_inductive :
    ∀ (size : Nat → Nat) (l l' : Loop), SysInv size l → Step size l l' → SysInv size l' :=
  @_root_.Drummer.step_inv

theorem safety_invariant_from_cold_start :
    ∀ (size : Nat → Nat) (l : Loop),
      l.groups = [] →
        (∀ (x : Host), x ∈ l.hosts → x.queue = []) →
          l.db.requests = [] → l.db.outgoing = [] → l.db.image.shards = [] → SysInv size l :=
  @_root_.Drummer.sysInv_cold

theorem fleet_model_follows_agent_table :
    ∀ (l : Loop) (h : Host) (r : Request),
      Host.run? h r.shardId = none →
        (r.join = false → r.restore = false → Option.isSome (Loop.group? l r.shardId) = false) →
          instantiate r.join r.restore (Option.isSome (Host.dataGet h r.shardId r.instantiateReplicaId)) ≠
              InstOutcome.panic →
            if
                InstOutcome.started
                    (instantiate r.join r.restore (Option.isSome (Host.dataGet h r.shardId r.instantiateReplicaId))) =
                  true then
              ∃ l' h',
                Loop.execCreate l h r = Loop.setHost l' h' ∧
                  Option.map (fun x => x.id) (Host.run? h' r.shardId) = some r.instantiateReplicaId
            else Loop.execCreate l h r = l :=
  @_root_.Drummer.execCreate_follows_table

theorem settle_is_step :
    ∀ (size : Nat → Nat) (l : Loop) (a : Addr), Step size l (Loop.settle l a) ∨ Loop.settle l a = l :=
  @_root_.Drummer.settle_step

theorem replica_that_applied_its_removal_stops :
    ∀ (l : Loop) (a : Addr) (h : Host),
      Loop.host? l a = some h →
        (Loop.settle l a).groups = l.groups ∧
          ∀ (h' : Host),
            Loop.host? (Loop.settle l a) a = some h' →
              ∀ (r : SimReplica), r ∈ h'.running → Loop.appliedOwnRemoval l r = false :=
  @_root_.Drummer.settle_spec

theorem never_silent_on_a_shard_that_needs_work :
    ∀ (cx : Ctx) (draws rest : List Nat) (rs : List Request),
      maintain cx draws = SRes.ok rs rest →
        ∀ (cr : ShardRepair),
          cr ∈ cx.repairs →
            (∀ (cr' : ShardRepair), cr' ∈ cx.repairs → cr'.shard.shardId = cr.shard.shardId → cr' = cr) →
              ∀ (d : ShardDef),
                Ctx.def? cx cr.shard.shardId = some d →
                  cr.failed ≠ [] ∨ cr.toStart ≠ [] →
                    (∀ (n : Replica), n ∈ cr.failed → n ∈ restorable cx cr) →
                      ∃ r, r ∈ rs ∧ r.shardId = cr.shard.shardId ∧ r.type = ReqType.create :=
  @_root_.Drummer.maintain_not_silent

/-! ### the delivery chain on the loop model (report → schedule → deliver → execute → report), and the invariant that
    closes it: no running replica is ahead of its group's history, so every running replica is reported -/

theorem scheduled_request_reaches_its_host :
    ∀ (l : Loop) (rs : List Request) (db' : DB) (n : Nat),
      DB.applyRequests l.db rs = Outcome.ok (db', n) →
        n ≠ 0 →
          ∀ (r : Request),
            r ∈ rs →
              ∀ (l2 : Loop) (k : Nat),
                Loop.report { db := db', hosts := l.hosts, groups := l.groups, nextVer := l.nextVer, regions := l.regions }
                      r.raftAddress false =
                    Outcome.ok (l2, k) →
                  ∃ h2, Loop.host? l2 r.raftAddress = some h2 ∧ r ∈ h2.queue :=
  @_root_.Drummer.scheduled_request_is_delivered

theorem delivered_restore_request_starts_the_replica :
    ∀ (l : Loop) (a : Addr) (h : Host),
      Loop.host? l a = some h →
        ∀ (pre post : List Request) (r : Request),
          h.queue = pre ++ r :: post →
            r.type = ReqType.create →
              r.restore = true →
                r.join = false →
                  Host.run? h r.shardId = none →
                    ∀ (ap : Int),
                      Host.dataGet h r.shardId r.instantiateReplicaId = some ap →
                        (∀ (x : Request), x ∈ pre → x.shardId = r.shardId → x.type ≠ ReqType.create) →
                          (∀ (x : Request),
                              x ∈ post →
                                ¬(x.shardId = r.shardId ∧
                                    x.type = ReqType.kill ∧ List.head? x.members = some r.instantiateReplicaId)) →
                            ∃ h',
                              Loop.host? (Loop.execute l a) a = some h' ∧
                                Option.map (fun x => x.id) (Host.run? h' r.shardId) = some r.instantiateReplicaId :=
  @_root_.Drummer.delivered_restore_runs

theorem delivered_join_request_starts_the_replica :
    ∀ (l : Loop) (a : Addr) (h : Host),
      Loop.host? l a = some h →
        ∀ (pre post : List Request) (r : Request),
          h.queue = pre ++ r :: post →
            r.type = ReqType.create →
              r.join = true →
                Host.run? h r.shardId = none →
                  (∀ (x : Request), x ∈ pre → x.shardId = r.shardId → x.type ≠ ReqType.create) →
                    (∀ (x : Request),
                        x ∈ post →
                          ¬(x.shardId = r.shardId ∧
                              x.type = ReqType.kill ∧ List.head? x.members = some r.instantiateReplicaId)) →
                      ∃ h',
                        Loop.host? (Loop.execute l a) a = some h' ∧
                          Option.map (fun x => x.id) (Host.run? h' r.shardId) = some r.instantiateReplicaId :=
  @_root_.Drummer.delivered_join_runs

theorem running_member_is_recorded_as_reported_now :
    ∀ (l l' : Loop) (a : Addr) (lost : Bool) (n : Nat),
      UniqueShards l.db.image →
        Loop.report l a lost = Outcome.ok (l', n) →
          ∀ (h : Host),
            Loop.host? l a = some h →
              ∀ (rep : SimReplica),
                Host.run? h rep.shard = some rep →
                  (rep.applied < 0 ∨ ∃ g m, Loop.group? l rep.shard = some g ∧ g.hist[Int.toNat rep.applied]? = some m) →
                    ∀ (c : Shard),
                      c ∈ l'.db.image.shards →
                        c.shardId = rep.shard → ∀ (r : Replica), r ∈ c.replicas → r.replicaId = rep.id → r.tick = l.db.tick :=
  @_root_.Drummer.running_member_is_stamped

theorem applied_index_invariant_is_inductive :
    ∀ (size : Nat → Nat) (defIds : Nat → List Nat) (l l' : Loop), Loop.AR l → KStep size defIds l l' → Loop.AR l' :=
  @_root_.Drummer.ar_kstep

theorem applied_index_invariant_from_cold_start :
    ∀ (l : Loop), l.groups = [] → (∀ (x : Host), x ∈ l.hosts → x.running = [] ∧ x.data = []) → Loop.AR l :=
  @_root_.Drummer.ar_cold

theorem every_running_replica_is_reported :
    ∀ (l : Loop),
      Loop.AR l →
        ∀ (h : Host),
          h ∈ l.hosts →
            ∀ (count : Nat) (rep : SimReplica),
              Host.run? h rep.shard = some rep →
                ∃ ci, ci ∈ (Loop.buildReport l h count).shardInfo ∧ ci.shardId = rep.shard ∧ ci.replicaId = rep.id :=
  @_root_.Drummer.report_lists_every_running_replica


/-! ### the chain composed: one scheduling round heals a crashed member whose host is back with its data (a concrete
    state that meets every hypothesis is in `Props/WitnessHeal`) -/

theorem one_round_heals_a_crashed_member :
    ∀ (l : Loop),
      Loop.AR l →
        UniqueShards l.db.image →
          ∀ (rs : List Request) (db' : DB) (n : Nat),
            DB.applyRequests l.db rs = Outcome.ok (db', n) →
              n ≠ 0 →
                ∀ (r : Request),
                  r ∈ rs →
                    r.type = ReqType.create →
                      r.restore = true →
                        r.join = false →
                          ∀ (h : Host),
                            Loop.host? l r.raftAddress = some h →
                              Host.run? h r.shardId = none →
                                ∀ (ap : Int),
                                  Host.dataGet h r.shardId r.instantiateReplicaId = some ap →
                                    (∀ (x : Request),
                                        x ∈ h.queue ++ forAddr rs r.raftAddress →
                                          x.shardId = r.shardId →
                                            x = r ∨
                                              x.type ≠ ReqType.create ∧
                                                ¬(x.type = ReqType.kill ∧
                                                    List.head? x.members = some r.instantiateReplicaId)) →
                                      ∀ (l2 : Loop) (k : Nat),
                                        Loop.report
                                              { db := db', hosts := l.hosts, groups := l.groups, nextVer := l.nextVer,
                                                regions := l.regions }
                                              r.raftAddress false =
                                            Outcome.ok (l2, k) →
                                          ∀ (lost : Bool) (l4 : Loop) (k4 : Nat),
                                            Loop.report (Loop.execute l2 r.raftAddress) r.raftAddress lost =
                                                Outcome.ok (l4, k4) →
                                              (∃ h3,
                                                  Loop.host? (Loop.execute l2 r.raftAddress) r.raftAddress = some h3 ∧
                                                    Option.map (fun x => x.id) (Host.run? h3 r.shardId) =
                                                      some r.instantiateReplicaId) ∧
                                                ∀ (c : Shard),
                                                  c ∈ l4.db.image.shards →
                                                    c.shardId = r.shardId →
                                                      ∀ (m : Replica),
                                                        m ∈ c.replicas →
                                                          m.replicaId = r.instantiateReplicaId → m.tick = l2.db.tick :=
  @_root_.Drummer.restore_round_heals_member


/-! ### from the scheduler's classification to the running replica: scheduler link, mailbox refinement and fleet links
    in one statement -/

theorem detected_member_is_restored_by_one_round :
    ∀ (l : Loop),
      Loop.AR l →
        UniqueShards l.db.image →
          ∀ (cx : Ctx) (draws rest : List Nat) (rs : List Request),
            maintain cx draws = SRes.ok rs rest →
              ∀ (db' : DB) (n : Nat),
                DB.applyRequests l.db rs = Outcome.ok (db', n) →
                  ∀ (cr : ShardRepair),
                    cr ∈ cx.repairs →
                      ShardRepair.restoreNow cx cr = true ∨
                          ShardRepair.needToBeRestored cr = false ∧ List.contains (doneShards cx) cr.shard.shardId = false →
                        ∀ (m : Replica),
                          m ∈ restorable cx cr →
                            ∀ (d : ShardDef),
                              Ctx.def? cx cr.shard.shardId = some d →
                                ∀ (h : Host),
                                  Loop.host? l m.address = some h →
                                    Host.run? h cr.shard.shardId = none →
                                      ∀ (ap : Int),
                                        Host.dataGet h cr.shard.shardId m.replicaId = some ap →
                                          (∀ (x : Request),
                                              x ∈ h.queue ++ forAddr rs m.address →
                                                x.shardId = cr.shard.shardId →
                                                  x = createReq m cr.shard d.appName false true ∨
                                                    x.type ≠ ReqType.create ∧
                                                      ¬(x.type = ReqType.kill ∧ List.head? x.members = some m.replicaId)) →
                                            ∀ (l2 : Loop) (k : Nat),
                                              Loop.report
                                                    { db := db', hosts := l.hosts, groups := l.groups, nextVer := l.nextVer,
                                                      regions := l.regions }
                                                    m.address false =
                                                  Outcome.ok (l2, k) →
                                                ∀ (lost : Bool) (l4 : Loop) (k4 : Nat),
                                                  Loop.report (Loop.execute l2 m.address) m.address lost =
                                                      Outcome.ok (l4, k4) →
                                                    (∃ h3,
                                                        Loop.host? (Loop.execute l2 m.address) m.address = some h3 ∧
                                                          Option.map (fun x => x.id) (Host.run? h3 cr.shard.shardId) =
                                                            some m.replicaId) ∧
                                                      ∀ (c : Shard),
                                                        c ∈ l4.db.image.shards →
                                                          c.shardId = cr.shard.shardId →
                                                            ∀ (x : Replica),
                                                              x ∈ c.replicas →
                                                                x.replicaId = m.replicaId → x.tick = l2.db.tick :=
  @_root_.Drummer.detected_member_is_restored_by_one_round

theorem round_output_contains_its_restore_phase :
    ∀ (cx : Ctx) (draws rest : List Nat) (all rs : List Request),
      maintain cx draws = SRes.ok all rest → restore cx = Outcome.ok rs → ∀ (r : Request), r ∈ rs → r ∈ all :=
  @_root_.Drummer.maintain_contains_restore


/-! ### the detection half of the healing timeline (shared with C05): a member that is no longer reported keeps its report time and is classified
    failed once the timeout has passed on the logical clock - whatever else is applied in between -/

/-- along ANY command history in which no report lists replica `rid` of shard `s` (ticks, other NodeHosts' reports in
any order, request batches, KV writes, definitions - any number), every record the final views hold for it is one the
initial views held for it (same report time, same first-seen time), or has no report time at all (a member added anew) -/
theorem silent_member_keeps_its_record :
    ∀ (cs : List Cmd) (d d' : DB), runCmds d cs = Outcome.ok d' → ∀ (s rid : Nat),
      (∀ c ∈ cs, ¬ Cmd.lists s rid c) →
      ∀ c' ∈ d'.image.shards, c'.shardId = s → ∀ r' ∈ c'.replicas, r'.replicaId = rid →
        (∃ c ∈ d.image.shards, c.shardId = s ∧ ∃ r ∈ c.replicas,
          r.replicaId = r'.replicaId ∧ r.tick = r'.tick ∧ r.firstObserved = r'.firstObserved) ∨ r'.tick = 0 :=
  @_root_.Drummer.silent_member_keeps_its_record

/-- the logical clock is the number of tick commands applied, times the fixed step (time advances only by ticks) -/
theorem clock_counts_ticks :
    ∀ (cs : List Cmd) (d d' : DB), runCmds d cs = Outcome.ok d' → d'.tick = d.tick + ticksIn cs * tickInterval :=
  @_root_.Drummer.clock_counts_ticks

/-- **a silent member is detected**: last reported at the positive time `t0`, then any history without a report listing
it whose ticks carry the clock more than the failure timeout past `t0`: whatever record the views hold for it at the end
is classified failed (or belongs to a member added anew, with no report time). -/
theorem silent_member_is_detected :
    ∀ (cs : List Cmd) (d d' : DB), runCmds d cs = Outcome.ok d' → ∀ (s rid t0 : Nat),
      (∀ c ∈ cs, ¬ Cmd.lists s rid c) →
      (∀ c ∈ d.image.shards, c.shardId = s → ∀ r ∈ c.replicas, r.replicaId = rid → r.tick = t0) →
      0 < t0 → t0 ≤ d.tick → d'.tick < 18446744073709551616 →
      d.tick + ticksIn cs * tickInterval - t0 > nodeHostTTL →
      ∀ c' ∈ d'.image.shards, c'.shardId = s → ∀ r' ∈ c'.replicas, r'.replicaId = rid →
        Replica.failed r' d'.tick = true ∨ r'.tick = 0 :=
  @_root_.Drummer.silent_member_is_detected

/-! ### the detection half inside the closed loop: a report lists only what its host runs, so a crashed member is
    listed by nobody; its record survives whatever the loop does meanwhile, and it is classified failed once the
    timeout has passed -/

theorem report_lists_only_running_replicas :
    ∀ (l : Loop) (h : Host) (count : Nat) (ci : ShardInfo),
      ci ∈ (Loop.buildReport l h count).shardInfo →
        ∃ rep, Host.run? h ci.shardId = some rep ∧ rep.id = ci.replicaId :=
  @_root_.Drummer.buildReport_lists_only_running

/-- along ANY sequence of loop events (reports of every NodeHost with or without lost replies, scheduling rounds with any
orders and draws, executions, crashes, restarts, catch-up, ticks) during which nobody runs replica `rid` of shard `s`,
every record the views end up holding for it is one they held at the start, or has no report time -/
theorem crashed_member_record_survives :
    ∀ (size : Nat → Nat) (s rid : Nat) (l l' : Loop),
      StepsWhile size (Loop.NotRunning s rid) l l' →
        ∀ c' ∈ l'.db.image.shards, c'.shardId = s → ∀ r' ∈ c'.replicas, r'.replicaId = rid →
          (∃ c ∈ l.db.image.shards, c.shardId = s ∧ ∃ r ∈ c.replicas,
            r.replicaId = r'.replicaId ∧ r.tick = r'.tick ∧ r.firstObserved = r'.firstObserved) ∨ r'.tick = 0 :=
  @_root_.Drummer.crashed_member_record_survives

/-- **a crashed member is detected**: last reported at the positive time `t0`, running nowhere since; once the logical
clock is more than the failure timeout past `t0` every record the views hold for it is classified failed (or belongs to a
member added anew) - the hypothesis `restorable` of `detected_member_is_restored_by_one_round` then follows from the
NodeHost being back and listing the replica's log -/
theorem crashed_member_is_detected :
    ∀ (size : Nat → Nat) (s rid t0 : Nat) (l l' : Loop),
      StepsWhile size (Loop.NotRunning s rid) l l' →
        (∀ c ∈ l.db.image.shards, c.shardId = s → ∀ r ∈ c.replicas, r.replicaId = rid → r.tick = t0) →
          0 < t0 → l'.db.tick < 18446744073709551616 → l'.db.tick - t0 > nodeHostTTL →
            ∀ c' ∈ l'.db.image.shards, c'.shardId = s → ∀ r' ∈ c'.replicas, r'.replicaId = rid →
              Replica.failed r' l'.db.tick = true ∨ r'.tick = 0 :=
  @_root_.Drummer.crashed_member_is_detected

/-! ### quiescence: a healed fleet stays healed and receives no request at all

`Loop.Settled`: every view at its group's newest membership version, every running replica caught up with its group (and
its shard has a view), nothing queued at a NodeHost, nothing scheduled, no stray recorded. `Loop.AllRunning`: every member
of every group's newest membership runs on the NodeHost the membership names, and that NodeHost is up. `QuietStep`: a
tick, a report of any NodeHost (reply lost or not), an execution, a log catch-up, or a scheduling round (any draws, any map orders) taken
at a moment when every member is classified healthy. `SameFleet`: same groups, and every address resolves to a NodeHost
with the same replicas, data and power state. -/

/-- a scheduling round over healthy views with no recorded stray issues nothing, consumes no draw, cannot fail -/
theorem healthy_round_is_empty :
    ∀ (d : DB) (cx : Ctx) (draws : List Nat), CtxExact d cx → DB.AllHealthy d → d.image.toKill = [] →
      maintain cx draws = SRes.ok [] draws :=
  @_root_.Drummer.healthy_round_is_empty

/-- the timing condition: every member record has a positive report time at most the failure timeout old -/
theorem recently_reported_is_healthy :
    ∀ (d : DB), d.tick < 18446744073709551616 →
      (∀ c ∈ d.image.shards, ∀ r ∈ c.replicas, 0 < r.tick ∧ r.tick ≤ d.tick ∧ d.tick - r.tick ≤ nodeHostTTL) →
        DB.AllHealthy d :=
  @_root_.Drummer.recently_reported_is_healthy

/-- in a settled state a NodeHost's report tells Drummer nothing new, is answered with no request, and changes neither the
views' versions nor the fleet -/
theorem report_keeps_a_settled_fleet_settled :
    ∀ (l l' : Loop) (a : Addr) (lost : Bool) (n : Nat), Loop.Settled l → Loop.report l a lost = Outcome.ok (l', n) →
      Loop.Settled l' ∧ n = 0 ∧ SameFleet l l' :=
  @_root_.Drummer.report_settled

/-- **a healed fleet stays healed and receives nothing**: from a settled state in which every member is running, along
ANY sequence of fault-free events, every member keeps running where it was, no request is ever queued at a NodeHost,
nothing is scheduled and no stray is recorded (witness: `Props/WitnessQuiet`) -/
theorem healed_fleet_stays_healed :
    ∀ (l l' : Loop), Loop.Settled l → Loop.AllRunning l → QuietSteps l l' →
      Loop.Settled l' ∧ Loop.AllRunning l' ∧ SameFleet l l' :=
  @_root_.Drummer.healed_fleet_stays_healed

/-! ### the healing timeline on states and events

`crashed_member_is_detected_in_a_quiet_run`: a member crashes in a healed fleet (its NodeHost comes back with its data);
whatever fault-free events follow, the fleet stays settled, the NodeHost keeps the data, and once the clock is more than
the timeout past the member's last report the member is classified failed. `one_round_heals_the_detected_member`: from
such a state ONE scheduling round (any context built from the state as `updateSchedulerContext` does, any draws), the
NodeHost's report, its execution and its next report bring the member back, running and reported at the current time.
Everything about the inside of the round is derived; what is assumed, visibly: the other members are classified healthy
at that moment and Drummer has the NodeHost's log list (both are timing: reports arrive within the timeout).
A state meeting every hypothesis, with the round evaluated by the kernel: `Props/WitnessTimeline`. -/

theorem crashed_member_is_detected_in_a_quiet_run :
    ∀ (size : Nat → Nat) (s rid t0 : Nat) (l1 l : Loop), Loop.Settled l1 → Loop.NotRunning s rid l1 → QuietSteps l1 l →
      (∀ c ∈ l1.db.image.shards, c.shardId = s → ∀ r ∈ c.replicas, r.replicaId = rid → r.tick = t0) →
        0 < t0 → l.db.tick < 18446744073709551616 → l.db.tick - t0 > nodeHostTTL →
          Loop.Settled l ∧ SameFleet l1 l ∧
            ∀ c' ∈ l.db.image.shards, c'.shardId = s → ∀ r' ∈ c'.replicas, r'.replicaId = rid →
              Replica.failed r' l.db.tick = true ∨ r'.tick = 0 :=
  @_root_.Drummer.crashed_member_is_detected_in_a_quiet_run

theorem one_round_heals_the_detected_member :
    ∀ (l : Loop), Loop.Settled l → Loop.AR l → UniqueShards l.db.image →
      ∀ (cx : Ctx), CtxFull l.db cx → ∀ (draws rest : List Nat) (rs : List Request), maintain cx draws = SRes.ok rs rest →
        ∀ (db' : DB) (n : Nat), DB.applyRequests l.db rs = Outcome.ok (db', n) →
          (∀ c ∈ l.db.image.shards, Shard.IdsOK c) →
            ∀ (c : Shard), c ∈ l.db.image.shards →
              ∀ (m : Replica), Shard.failedReplicas c l.db.tick = [m] → Shard.toStart c l.db.tick = [] →
                Shard.available c l.db.tick = true →
                  ∀ (dd : ShardDef), dd ∈ l.db.shards → dd.shardId = c.shardId →
                    ∀ (spec : HostSpec), hostFind? l.db.hosts m.address = some spec →
                      HostSpec.available spec l.db.tick = true → HostSpec.hasLog spec c.shardId m.replicaId = true →
                        ∀ (h : Host), Loop.host? l m.address = some h → Host.run? h c.shardId = none →
                          ∀ (ap : Int), Host.dataGet h c.shardId m.replicaId = some ap →
                            ∀ (l2 : Loop) (k : Nat),
                              Loop.report { db := db', hosts := l.hosts, groups := l.groups, nextVer := l.nextVer, regions := l.regions }
                                  m.address false = Outcome.ok (l2, k) →
                                ∀ (lost : Bool) (l4 : Loop) (k4 : Nat),
                                  Loop.report (Loop.execute l2 m.address) m.address lost = Outcome.ok (l4, k4) →
                                    (∃ h3, Loop.host? (Loop.execute l2 m.address) m.address = some h3 ∧
                                        Option.map (fun x => x.id) (Host.run? h3 c.shardId) = some m.replicaId) ∧
                                      ∀ c' ∈ l4.db.image.shards, c'.shardId = c.shardId →
                                        ∀ x ∈ c'.replicas, x.replicaId = m.replicaId → x.tick = l2.db.tick :=
  @_root_.Drummer.one_round_heals_the_detected_member

/-! ### healed again - the loop closed for the simplest fault

From a settled state whose only anomaly is one member classified failed on a NodeHost that is back with its data (the state
`crashed_member_is_detected_in_a_quiet_run` arrives at), the round is exactly one restore request
(`round_is_exactly_one_restore_request`), and after the NodeHost's report, its execution and its next report the fleet is
settled and EVERY member of every group is running (`crashed_member_is_healed_again`) - from where
`healed_fleet_stays_healed` takes over. Kernel-evaluated instance: `Props/WitnessTimeline.healedAgain`. -/

theorem round_is_exactly_one_restore_request :
    ∀ (d : DB), UniqueShards d.image → ∀ (cx : Ctx), CtxOnce d cx →
      ∀ (draws rest : List Nat) (rs : List Request), maintain cx draws = SRes.ok rs rest →
        (∀ c ∈ d.image.shards, Shard.IdsOK c) → d.image.toKill = [] →
          ∀ (c : Shard), c ∈ d.image.shards →
            ∀ (m : Replica), Shard.failedReplicas c d.tick = [m] → Shard.toStart c d.tick = [] →
              Shard.available c d.tick = true →
                (∀ c' ∈ d.image.shards, c' ≠ c → Shard.failedReplicas c' d.tick = [] ∧ Shard.toStart c' d.tick = []) →
                  ∀ (dd : ShardDef), dd ∈ d.shards → dd.shardId = c.shardId →
                    ∀ (spec : HostSpec), hostFind? d.hosts m.address = some spec →
                      HostSpec.available spec d.tick = true → HostSpec.hasLog spec c.shardId m.replicaId = true →
                        ∃ app, rs = [createReq m c app false true] ∧ rest = draws :=
  @_root_.Drummer.round_is_one_restore

theorem crashed_member_is_healed_again :
    ∀ (l : Loop), Loop.Settled l → UniqueShards l.db.image →
      ∀ (cx : Ctx), CtxOnce l.db cx → ∀ (draws rest : List Nat) (rs : List Request), maintain cx draws = SRes.ok rs rest →
        ∀ (db' : DB) (n : Nat), DB.applyRequests l.db rs = Outcome.ok (db', n) →
          (∀ c ∈ l.db.image.shards, Shard.IdsOK c) →
            ∀ (c : Shard), c ∈ l.db.image.shards →
              ∀ (m : Replica), Shard.failedReplicas c l.db.tick = [m] → Shard.toStart c l.db.tick = [] →
                Shard.available c l.db.tick = true →
                  (∀ c' ∈ l.db.image.shards, c' ≠ c → Shard.failedReplicas c' l.db.tick = [] ∧ Shard.toStart c' l.db.tick = []) →
                    ∀ (dd : ShardDef), dd ∈ l.db.shards → dd.shardId = c.shardId →
                      ∀ (spec : HostSpec), hostFind? l.db.hosts m.address = some spec →
                        HostSpec.available spec l.db.tick = true → HostSpec.hasLog spec c.shardId m.replicaId = true →
                          ∀ (h : Host), Loop.host? l m.address = some h → h.up = true → Host.run? h c.shardId = none →
                            ∀ (g : Group), Loop.group? l c.shardId = some g → g.hist ≠ [] →
                              Host.dataGet h c.shardId m.replicaId = some ((g.hist.length : Int) - 1) →
                                (∀ g' ∈ l.groups, ∀ p ∈ (Group.cur g').members,
                                  (g'.shard = c.shardId ∧ p = (m.replicaId, m.address)) ∨
                                  (p.2 ≠ m.address ∧ ∃ h', Loop.host? l p.2 = some h' ∧ h'.up = true ∧
                                    ∃ rep, Host.run? h' g'.shard = some rep ∧ rep.id = p.1)) →
                                  ∀ (l2 : Loop) (k : Nat),
                                    Loop.report { db := db', hosts := l.hosts, groups := l.groups, nextVer := l.nextVer, regions := l.regions }
                                        m.address false = Outcome.ok (l2, k) →
                                      ∀ (lost : Bool) (l4 : Loop) (k4 : Nat),
                                        Loop.report (Loop.execute l2 m.address) m.address lost = Outcome.ok (l4, k4) →
                                          Loop.Settled l4 ∧ Loop.AllRunning l4 :=
  @_root_.Drummer.crashed_member_is_healed_again

/-! ### healed again - a whole NodeHost

The same closure for a NodeHost that crashed with EVERY replica it ran (one per shard, any number of shards) and came back
with the data: `DB.OneHostDown d a spec` says every view is healthy or has exactly the member on `a` classified failed
(nobody waiting, a majority healthy, the member's log on `a`'s record `spec`, the shard defined). The round is then one
restore request per affected shard, all addressed to `a` (`round_after_a_nodehost_crash`), and after `a`'s report, its
execution of the whole batch and its next report the fleet is settled and every member of every group is running
(`crashed_nodehost_is_healed_again`). Kernel-evaluated instance with two shards: `Props/WitnessFleet.healedAgain`. -/

theorem round_after_a_nodehost_crash :
    ∀ (d : DB) (cx : Ctx), CtxOnce d cx → ∀ (draws rest : List Nat) (rs : List Request),
      maintain cx draws = SRes.ok rs rest → (∀ c ∈ d.image.shards, Shard.IdsOK c) → d.image.toKill = [] →
        ∀ (a : Addr) (spec : HostSpec), hostFind? d.hosts a = some spec → HostSpec.available spec d.tick = true →
          DB.OneHostDown d a spec →
            rest = draws ∧ (rs.map (·.shardId)).Nodup ∧
            (∀ r ∈ rs, ∃ c ∈ d.image.shards, ∃ m app, Shard.failedReplicas c d.tick = [m] ∧ m.address = a ∧
              r = createReq m c app false true) ∧
            (∀ c ∈ d.image.shards, ∀ m, Shard.failedReplicas c d.tick = [m] → ∃ app, createReq m c app false true ∈ rs) :=
  @_root_.Drummer.round_is_restores

theorem crashed_nodehost_is_healed_again :
    ∀ (l : Loop), Loop.Settled l →
      ∀ (cx : Ctx), CtxOnce l.db cx → ∀ (draws rest : List Nat) (rs : List Request), maintain cx draws = SRes.ok rs rest →
        ∀ (db' : DB) (n : Nat), DB.applyRequests l.db rs = Outcome.ok (db', n) →
          (∀ c ∈ l.db.image.shards, Shard.IdsOK c) →
            ∀ (a : Addr) (spec : HostSpec), hostFind? l.db.hosts a = some spec → HostSpec.available spec l.db.tick = true →
              DB.OneHostDown l.db a spec →
                ∀ (c0 : Shard), c0 ∈ l.db.image.shards → ∀ (m0 : Replica), Shard.failedReplicas c0 l.db.tick = [m0] →
                  ∀ (h : Host), Loop.host? l a = some h → h.up = true →
                    (∀ c ∈ l.db.image.shards, ∀ m, Shard.failedReplicas c l.db.tick = [m] → Host.run? h c.shardId = none ∧
                      ∃ g, Loop.group? l c.shardId = some g ∧ g.hist ≠ [] ∧
                        Host.dataGet h c.shardId m.replicaId = some ((g.hist.length : Int) - 1)) →
                      (∀ g' ∈ l.groups, ∀ p ∈ (Group.cur g').members,
                        (∃ c ∈ l.db.image.shards, ∃ m, c.shardId = g'.shard ∧ Shard.failedReplicas c l.db.tick = [m] ∧
                          p = (m.replicaId, m.address)) ∨
                        (p.2 ≠ a ∧ ∃ h', Loop.host? l p.2 = some h' ∧ h'.up = true ∧
                          ∃ rep, Host.run? h' g'.shard = some rep ∧ rep.id = p.1)) →
                        ∀ (l2 : Loop) (k : Nat),
                          Loop.report { db := db', hosts := l.hosts, groups := l.groups, nextVer := l.nextVer, regions := l.regions }
                              a false = Outcome.ok (l2, k) →
                            ∀ (lost : Bool) (l4 : Loop) (k4 : Nat),
                              Loop.report (Loop.execute l2 a) a lost = Outcome.ok (l4, k4) →
                                Loop.Settled l4 ∧ Loop.AllRunning l4 :=
  @_root_.Drummer.crashed_nodehost_is_healed_again

/-! ### the replacement path, first leg

A member whose NodeHost is gone for good cannot be restored (no recent record with its log). If its shard keeps a majority
and nobody is waiting, the round is exactly one ADD request (`round_for_a_lost_member_is_one_add`, justified by
`RepairJust`: fenced by the view's version, sent to a healthy member's NodeHost, naming a live NodeHost that does not host
the shard and a non-zero id no member of the view uses); an ADD dragonboat accepts extends the group's history by exactly
the membership with the new member appended (`add_request_extends_the_group`); and end to end - round, scheduling, pick-up,
execution - the group has the new member (`replacement_member_is_added`). Admissibility against what only dragonboat
remembers (ids of removed members) is a hypothesis. Kernel-evaluated instance: `Props/WitnessReplace.added`. The later legs
(the new member is started by a join request, the lost member is removed) are not chained here: the states in between
have a membership change in flight, outside `Settled`. -/

theorem round_for_a_lost_member_is_one_add :
    ∀ (d : DB) (cx : Ctx), CtxOnce d cx → ∀ (draws rest : List Nat) (rs : List Request),
      maintain cx draws = SRes.ok rs rest → (∀ c ∈ d.image.shards, Shard.IdsOK c) → d.image.toKill = [] →
        ∀ (c : Shard), c ∈ d.image.shards →
          ∀ (m : Replica), Shard.failedReplicas c d.tick = [m] → Shard.toStart c d.tick = [] →
            Shard.available c d.tick = true →
              (∀ c' ∈ d.image.shards, c' ≠ c → Shard.failedReplicas c' d.tick = [] ∧ Shard.toStart c' d.tick = []) →
                ∀ (dd : ShardDef), dd ∈ d.shards → dd.shardId = c.shardId →
                  (∀ dx ∈ d.shards, dx.shardId = c.shardId → c.replicas.length ≤ dx.members.length) →
                    (∀ spec, hostFind? d.hosts m.address = some spec →
                      (HostSpec.available spec d.tick && HostSpec.hasLog spec m.shardId m.replicaId) = false) →
                      ∃ cr r, cr ∈ cx.repairs ∧ cr.shard = c ∧ rs = [r] ∧ r.type = ReqType.add ∧ RepairJust cx cr r :=
  @_root_.Drummer.round_is_one_add

theorem add_request_extends_the_group :
    ∀ (l : Loop) (h : Host) (r : Request) (g : Group) (rep : SimReplica) (id : Nat) (na : Addr),
      Loop.group? l r.shardId = some g → r.members = [id] → r.type = ReqType.add → r.addressList = [na] →
        Host.run? h r.shardId = some rep → (Group.cur g).members.any (·.1 == rep.id) = true →
          r.confChangeId = (Group.cur g).ver → Loop.quorumRunning l r.shardId = true →
            id ∉ (Group.cur g).removed → (Group.cur g).members.any (·.1 == id) = false →
              (Group.cur g).members.any (·.2 == na) = false →
                Loop.execChange l h r =
                  (({ l with nextVer := l.nextVer + 1 } : Loop).setGroup
                      { g with hist := g.hist ++ [Membership.added (Group.cur g) (l.nextVer + 1) id na] }).setHost
                    ((h.setRun { rep with applied := ((g.hist ++ [Membership.added (Group.cur g) (l.nextVer + 1) id na]).length : Int) - 1 }).dataPut
                      r.shardId rep.id (((g.hist ++ [Membership.added (Group.cur g) (l.nextVer + 1) id na]).length : Int) - 1)) :=
  @_root_.Drummer.execChange_add

theorem replacement_member_is_added :
    ∀ (l : Loop), Loop.Settled l →
      ∀ (cx : Ctx), CtxOnce l.db cx → ∀ (draws rest : List Nat) (rs : List Request), maintain cx draws = SRes.ok rs rest →
        ∀ (db' : DB) (n : Nat), DB.applyRequests l.db rs = Outcome.ok (db', n) →
          (∀ c ∈ l.db.image.shards, Shard.IdsOK c) → ∀ (c : Shard), c ∈ l.db.image.shards →
            ∀ (m : Replica), Shard.failedReplicas c l.db.tick = [m] → Shard.toStart c l.db.tick = [] →
              Shard.available c l.db.tick = true →
                (∀ c' ∈ l.db.image.shards, c' ≠ c → Shard.failedReplicas c' l.db.tick = [] ∧ Shard.toStart c' l.db.tick = []) →
                  ∀ (dd : ShardDef), dd ∈ l.db.shards → dd.shardId = c.shardId →
                    (∀ dx ∈ l.db.shards, dx.shardId = c.shardId → c.replicas.length ≤ dx.members.length) →
                      (∀ spec, hostFind? l.db.hosts m.address = some spec →
                        (HostSpec.available spec l.db.tick && HostSpec.hasLog spec m.shardId m.replicaId) = false) →
                        ∀ (g : Group), Loop.group? l c.shardId = some g →
                          (∀ x ∈ c.replicas, (x.replicaId, x.address) ∈ (Group.cur g).members) →
                            (∀ x ∈ Shard.okReplicas c l.db.tick, ∃ hx rep, Loop.host? l x.address = some hx ∧
                              Host.run? hx c.shardId = some rep ∧ rep.id = x.replicaId) →
                              Loop.quorumRunning l c.shardId = true →
                                (∀ r ∈ rs, ∀ id na, r.members = [id] → r.addressList = [na] →
                                  id ∉ (Group.cur g).removed ∧ ∀ p ∈ (Group.cur g).members, p.1 ≠ id ∧ p.2 ≠ na) →
    ∃ r via id spec, rs = [r] ∧ r.type = ReqType.add ∧ r.members = [id] ∧ r.addressList = [spec.address] ∧
      via ∈ Shard.okReplicas c l.db.tick ∧ r.raftAddress = via.address ∧
      spec ∈ cx.hosts ∧ liveFilter l.db.tick nodeHostTTL spec = true ∧ basicFilter c.shardId spec = true ∧
      id ≠ 0 ∧ (∀ x ∈ c.replicas, x.replicaId ≠ id) ∧
      ∀ (l2 : Loop) (k : Nat),
        Loop.report { db := db', hosts := l.hosts, groups := l.groups, nextVer := l.nextVer, regions := l.regions }
            via.address false = Outcome.ok (l2, k) →
          Loop.group? (Loop.execute l2 via.address) c.shardId =
              some { g with hist := g.hist ++ [Membership.added (Group.cur g) (l.nextVer + 1) id spec.address] } ∧
            (∀ s, s ≠ c.shardId → Loop.group? (Loop.execute l2 via.address) s = Loop.group? l s) ∧
            (Loop.execute l2 via.address).db.requests = [] ∧ (∀ x ∈ (Loop.execute l2 via.address).hosts, x.queue = []) :=
  @_root_.Drummer.replacement_member_is_added

/-- the replacement path, second round: once the new member is in the view (never reported: waiting to be started), the
lost member still failed and not restorable, and no removal due yet, the round is exactly the join request for the new
member, addressed to its NodeHost, no draw consumed. Kernel-evaluated instance: `Props/WitnessJoin.joins`. -/
theorem round_for_a_waiting_member_is_one_join :
    ∀ (d : DB) (cx : Ctx), CtxOnce d cx → ∀ (draws rest : List Nat) (rs : List Request),
      maintain cx draws = SRes.ok rs rest → d.image.toKill = [] →
        ∀ (c : Shard), c ∈ d.image.shards → ∀ (t : Replica), Shard.toStart c d.tick = [t] →
          (∀ c' ∈ d.image.shards, c' ≠ c → Shard.failedReplicas c' d.tick = [] ∧ Shard.toStart c' d.tick = []) →
            ∀ (dd : ShardDef), dd ∈ d.shards → dd.shardId = c.shardId →
              (∀ dx ∈ d.shards, dx.shardId = c.shardId →
                (Shard.failedReplicas c d.tick).length + (Shard.okReplicas c d.tick).length ≤ dx.members.length) →
                (∀ m ∈ Shard.failedReplicas c d.tick, ∀ spec, hostFind? d.hosts m.address = some spec →
                  (HostSpec.available spec d.tick && HostSpec.hasLog spec m.shardId m.replicaId) = false) →
                  ∃ app, rs = [createReq t c app true false] ∧ rest = draws :=
  @_root_.Drummer.round_is_one_join

/-- where "Drummer holds the NodeHost's log record" comes from: the first report of a NodeHost after it came back (and every
third one) announces its persisted logs; afterwards the replicated state has a record under the NodeHost's address,
stamped with the current time, that lists the log of every replica the NodeHost holds data for (replica ids below 10^12,
the range on which the model's canonical order of the announced list is defined) -/
theorem first_report_records_the_logs :
    ∀ (l l' : Loop) (a : Addr) (lost : Bool) (n : Nat) (h0 : Host), Loop.host? l a = some h0 →
      (h0.reportCount = 0 ∨ (h0.reportCount + 1) % 3 = 0) →
        ∀ (s rid : Nat) (ap : Int), ((s, rid), ap) ∈ h0.data → rid < 1000000000000 →
          Loop.report l a lost = Outcome.ok (l', n) →
            ∃ spec, hostFind? l'.db.hosts a = some spec ∧ spec.tick = l.db.tick ∧ HostSpec.hasLog spec s rid = true :=
  @_root_.Drummer.first_report_records_the_logs

/-- **the quiet window** - the timing premise discharged for bounded windows: `DB.Fresh d s` says every member record
carries a positive report time at most `s` old; `WindowStep` is a fault-free event (tick, report, execution, catch-up,
scheduling round with NO premise) indexed by the number of ticks it contains. From a settled state that is `Fresh s`, any
sequence of such events containing `k` ticks with `s + k * tickInterval ≤ nodeHostTTL` is a quiet run: every round finds
every member healthy and issues nothing, the fleet stays settled. (Reports renew the window: a report stamps the members
its NodeHost runs with the current time, `running_member_is_recorded_as_reported_now`.) -/
theorem quiet_window :
    ∀ (l l' : Loop) (k s : Nat), Loop.Settled l → 0 < l.db.tick → DB.Fresh l.db s →
      s + k * tickInterval ≤ nodeHostTTL → l.db.tick + k * tickInterval < 18446744073709551616 →
        WindowSteps l l' k →
          QuietSteps l l' ∧ Loop.Settled l' ∧ DB.Fresh l'.db (s + k * tickInterval) ∧ 0 < l'.db.tick ∧
            l'.db.tick ≤ l.db.tick + k * tickInterval :=
  @_root_.Drummer.quiet_window

/-! ### reports renew the window

`Loop.ViewsHosted`: every member record of every view is run by the NodeHost its address names. `DB.Since d t0 A`: every
record whose address is in `A` has a report time of at least `t0`. -/

/-- a report of NodeHost `a` on a settled, hosted fleet stamps every record named `a` with the current time and leaves the
others alone -/
theorem report_renews_the_records_of_its_host :
    ∀ (l l' : Loop) (a : Addr) (lost : Bool) (n t0 : Nat) (A : List Addr),
      Loop.Settled l → UniqueShards l.db.image → Loop.ViewsHosted l → t0 ≤ l.db.tick → DB.Since l.db t0 A →
        Loop.report l a lost = Outcome.ok (l', n) →
          DB.Since l'.db t0 (a :: A) ∧ Loop.ViewsHosted l' ∧ UniqueShards l'.db.image :=
  @_root_.Drummer.report_since

/-- once every NodeHost that a record names has reported since `t0`, every record is at most `now - t0` old: the next
quiet window starts from there -/
theorem records_are_fresh_once_every_host_has_reported :
    ∀ (d : DB) (t0 : Nat) (A : List Addr), 0 < t0 → DB.Since d t0 A →
      (∀ c ∈ d.image.shards, ∀ r ∈ c.replicas, r.address ∈ A) →
        (∀ c ∈ d.image.shards, ∀ r ∈ c.replicas, r.tick ≤ d.tick) → DB.Fresh d (d.tick - t0) :=
  @_root_.Drummer.since_all_fresh

/-- one sweep - a window of `k` ticks with arbitrary fault-free events in which every NodeHost named by a record reports at
least once - keeps a settled, hosted fleet settled and brings every record to at most `k` ticks of age, whatever age
(within the window) it started with -/
theorem sweep_renews :
    ∀ (l l' : Loop) (k s : Nat) (A : List Addr), Loop.Settled l → 0 < l.db.tick → DB.Fresh l.db s →
      UniqueShards l.db.image → Loop.ViewsHosted l → s + k * tickInterval ≤ nodeHostTTL →
        l.db.tick + k * tickInterval < 18446744073709551616 → SweepSteps l l' k A →
          (∀ c ∈ l'.db.image.shards, ∀ r ∈ c.replicas, r.address ∈ A) →
            QuietSteps l l' ∧ Loop.Settled l' ∧ Loop.ViewsHosted l' ∧ UniqueShards l'.db.image ∧ 0 < l'.db.tick ∧
              DB.Fresh l'.db (k * tickInterval) :=
  @_root_.Drummer.sweep_renews

/-- **a healed fleet stays healed for ever under the reporting cadence**: no premise about scheduling moments any more. If
two sweeps fit into the failure timeout, a settled, hosted fleet in which every member is running and whose records are at
most one sweep old goes through ANY number of sweeps and stays settled, every member running, with no request issued -/
theorem healed_for_ever_under_cadence :
    ∀ (k : Nat) (l l' : Loop), Loop.Settled l → Loop.AllRunning l → 0 < l.db.tick →
      DB.Fresh l.db (k * tickInterval) → UniqueShards l.db.image → Loop.ViewsHosted l →
        2 * (k * tickInterval) ≤ nodeHostTTL → Sweeps k l l' →
          QuietSteps l l' ∧ Loop.Settled l' ∧ Loop.AllRunning l' ∧ Loop.ViewsHosted l' ∧ UniqueShards l'.db.image ∧
            0 < l'.db.tick ∧ DB.Fresh l'.db (k * tickInterval) :=
  @_root_.Drummer.healed_for_ever_under_cadence

end C01
end Drummer
