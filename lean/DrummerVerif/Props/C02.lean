import DrummerVerif.Lemmas.C02
import DrummerVerif.Lemmas.C02Events
import DrummerVerif.Lemmas.NoReturnLoop
import DrummerVerif.Lemmas.C12
import DrummerVerif.Lemmas.LoopLaunch
import DrummerVerif.Bridge.Bridge
/-!
# C02 — membership changes are justified by the view and fenced by its version

Property theorems only; every proof is a reference to a lemma in `Lemmas/`. The statement printed here is
the full statement (all quantifiers explicit).
-/
namespace Drummer
namespace C02

theorem repair_decision_justified :
    ∀ (cx : Ctx) (cr : ShardRepair) (draws : List Nat) (one : List Request) (rest : List Nat),
    (∀ (x : Replica), x ∈ cr.failed → x.shardId = cr.shard.shardId) →
    repairOne cx cr draws = SRes.ok one rest → List.length one ≤ 1 ∧ ∀ (r : Request), r ∈ one → RepairJust cx cr r :=
  @_root_.Drummer.repairOne_spec

theorem repair_round_justified :
    ∀ (cx : Ctx) (restored : List Nat) (l : List ShardRepair) (draws : List Nat) (rs : List Request)
    (rest : List Nat),
    (∀ (cr : ShardRepair), cr ∈ l → ∀ (x : Replica), x ∈ cr.failed → x.shardId = cr.shard.shardId) →
    repair cx restored l draws = SRes.ok rs rest →
    (∀ (r : Request), r ∈ rs → ¬r.shardId ∈ restored ∧ ∃ cr, cr ∈ l ∧ RepairJust cx cr r) ∧
    List.length rs ≤ List.length l :=
  @_root_.Drummer.repair_spec

theorem replacement_host_ok :
    ∀ (cx : Ctx) (f : Replica) (draws : List Nat) (h : HostSpec) (rest : List Nat),
    replacement cx f draws = some (some h, rest) →
    h ∈ cx.hosts ∧ liveFilter cx.tick nodeHostTTL h = true ∧ basicFilter f.shardId h = true :=
  @_root_.Drummer.replacement_spec

theorem step_preserves_invariant :
    ∀ (size : Nat → Nat) (l l' : Loop), SysInv size l → Step size l l' → SysInv size l' :=
  @_root_.Drummer.step_inv

theorem reachable_groups_wf :
    ∀ (size : Nat → Nat) (l l' : Loop),
    SysInv size l →
    Steps size l l' →
    ∀ (g : Group),
    g ∈ l'.groups →
    ∀ (m : Membership),
    m ∈ g.hist →
    List.Nodup (List.map (fun x => x.fst) m.members) ∧
    List.Nodup (List.map (fun x => x.snd) m.members) ∧
    size g.shard ≤ List.length m.members ∧ List.length m.members ≤ size g.shard + 1 :=
  @_root_.Drummer.C02_reachable_groups_wf

theorem reachable_views_mirror :
    ∀ (size : Nat → Nat) (l l' : Loop),
    SysInv size l → Steps size l l' → ∀ (c : Shard), c ∈ l'.db.image.shards → Shard.Mirrors (Loop.H l') c :=
  @_root_.Drummer.C02_reachable_views_mirror

theorem removed_ids_never_return :
    ∀ (size : Nat → Nat) (l l' : Loop), Loop.AllNR l → Steps size l l' → Loop.AllNR l' :=
  @_root_.Drummer.reachable_noReturn

theorem cold_start_invariant :
    ∀ (size : Nat → Nat) (l : Loop),
    l.groups = [] →
    (∀ (x : Host), x ∈ l.hosts → x.queue = []) →
    l.db.requests = [] → l.db.outgoing = [] → l.db.image.shards = [] → SysInv size l :=
  @_root_.Drummer.sysInv_cold

theorem crash_is_step :
    ∀ (size : Nat → Nat) (l : Loop) (a : Addr), Step size l (Loop.crash l a) ∨ Loop.crash l a = l :=
  @_root_.Drummer.crash_step

theorem restart_is_step :
    ∀ (size : Nat → Nat) (l : Loop) (a : Addr), Step size l (Loop.restart l a) ∨ Loop.restart l a = l :=
  @_root_.Drummer.restart_step

theorem progress_is_step :
    ∀ (size : Nat → Nat) (l : Loop) (a : Addr) (all : Bool),
    Step size l (Loop.progress l a all) ∨ Loop.progress l a all = l :=
  @_root_.Drummer.progress_step

theorem launch_exec_ok :
    ∀ (size : Nat → Nat) (l : Loop) (cx : Ctx) (draws rest : List Nat) (rs : List Request),
    DefsOK size cx → launchF cx draws = SRes.ok rs rest → ∀ (r : Request), r ∈ rs → ExecOK size l r :=
  @_root_.Drummer.launchF_execOK

theorem code_addRequired :
    ∀ (cr : ShardRepair), Gen.repair_addRequired cr = ShardRepair.addRequired cr :=
  @_root_.Drummer.bridge_addRequired

theorem code_createRequired :
    ∀ (cr : ShardRepair), Gen.repair_createRequired cr = ShardRepair.createRequired cr :=
  @_root_.Drummer.bridge_createRequired

theorem code_deleteRequired :
    ∀ (cr : ShardRepair) (n : Nat), Gen.repair_deleteRequired cr n = ShardRepair.deleteRequired cr n :=
  @_root_.Drummer.bridge_deleteRequired

theorem code_repair_available :
    ∀ (cr : ShardRepair), Gen.repair_available cr = ShardRepair.available cr :=
  @_root_.Drummer.bridge_ravailable

theorem settle_is_step :
    ∀ (size : Nat → Nat) (l : Loop) (a : Addr), Step size l (Loop.settle l a) ∨ Loop.settle l a = l :=
  @_root_.Drummer.settle_step

theorem replica_that_applied_its_removal_stops :
    ∀ (l : Loop) (a : Addr) (h : Host),
      Loop.host? l a = some h →
        (Loop.settle l a).groups = l.groups ∧
          ∀ (h' : Host),
            Loop.host? (Loop.settle l a) a = some h' →
              ∀ (r : SimReplica), r ∈ h'.running → Loop.appliedOwnRemoval l r = false :=
  @_root_.Drummer.settle_spec

end C02
end Drummer
