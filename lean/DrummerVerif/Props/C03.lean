import DrummerVerif.Lemmas.C03O
import DrummerVerif.Bridge.Bridge
/-!
# C03 — DB replicas are deterministic and snapshot-equivalent

Property theorems only; every proof is a reference to a lemma in `Lemmas/`. The statement printed here is
the full statement (all quantifiers explicit).
-/
namespace Drummer
namespace C03

theorem merge_order_irrelevant :
    ∀ (g g' m : List (Addr × List Request)),
    List.Perm g g' →
    List.Nodup (List.map (fun x => x.fst) g) →
    ∀ (a : Addr),
    amGet (List.foldl (fun m p => amPut m p.fst p.snd) m g) a =
    amGet (List.foldl (fun m p => amPut m p.fst p.snd) m g') a :=
  @_root_.Drummer.merge_order_irrelevant

theorem snapshot_fields_agree :
    Gen.dbSerialised = Gen.dbRestored :=
  @_root_.Drummer.snapshot_fields_agree

end C03
end Drummer
