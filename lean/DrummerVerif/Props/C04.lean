import DrummerVerif.Lemmas.C04H
import DrummerVerif.Lemmas.C04a
import DrummerVerif.Lemmas.LoopSys
import DrummerVerif.Lemmas.C04L
import DrummerVerif.Lemmas.Small
/-!
# C04 — the membership view only moves forward and mirrors the newest complete report

Property theorems only; every proof is a reference to a lemma in `Lemmas/`. The statement printed here is
the full statement (all quantifiers explicit).
-/
namespace Drummer
namespace C04

theorem view_mirrors_max :
    ∀ (H : Hist) (cs : List Cmd) (d : DB),
      runCmds { } cs = Outcome.ok d →
        ConsistentWith H cs →
          ∀ (c : Shard),
            c ∈ d.image.shards →
              SeenIn cs c.shardId c.cci ∧
                (∀ (v : Nat), SeenIn cs c.shardId v → v ≤ c.cci) ∧
                  (∀ (p : Nat × Addr), p ∈ Shard.pairs c ↔ p ∈ H c.shardId c.cci) ∧
                    List.Nodup (List.map (fun x => x.replicaId) c.replicas) :=
  @_root_.Drummer.view_mirrors_max

theorem view_version_is_max_seen :
    ∀ (cs : List Cmd) (d : DB),
      runCmds { } cs = Outcome.ok d →
        (∀ (c : Shard), c ∈ d.image.shards → SeenIn cs c.shardId c.cci ∧ ∀ (v : Nat), SeenIn cs c.shardId v → v ≤ c.cci) ∧
          ∀ (s v : Nat), SeenIn cs s v → ∃ c, c ∈ d.image.shards ∧ c.shardId = s :=
  @_root_.Drummer.view_version_is_max_seen

theorem version_never_decreases_over_histories :
    ∀ (cs : List Cmd) (d d' : DB),
      runCmds d cs = Outcome.ok d' →
        UniqueShards d.image →
          Covers d.image d'.image ∧ ∀ (s v : Nat), SeenIn cs s v → ∃ c, c ∈ d'.image.shards ∧ c.shardId = s ∧ v ≤ c.cci :=
  @_root_.Drummer.history_covers

theorem view_mirrors_history :
    ∀ (H : Hist) (cs : List Cmd) (d d' : DB),
      runCmds d cs = Outcome.ok d' →
        (∀ (c : Shard), c ∈ d.image.shards → Shard.Mirrors H c) →
          ConsistentWith H cs → ∀ (c : Shard), c ∈ d'.image.shards → Shard.Mirrors H c :=
  @_root_.Drummer.history_mirrors

theorem one_report_never_lowers_a_version :
    ∀ (mc mc' : MultiShard) (nhi : NodeHostInfo),
      UniqueShards mc →
        MultiShard.update mc nhi = Outcome.ok mc' →
          Covers mc mc' ∧
            UniqueShards mc' ∧
              ∀ (ci : ShardInfo),
                ci ∈ nhi.shardInfo →
                  ShardInfo.complete ci → ∃ c', c' ∈ mc'.shards ∧ c'.shardId = ci.shardId ∧ ci.cci ≤ c'.cci :=
  @_root_.Drummer.update_covers

theorem first_report_mirrors :
    ∀ (H : Hist) (ci : ShardInfo) (t : Nat), ShardInfo.Consistent H ci → Shard.Mirrors H (getShard ci t) :=
  @_root_.Drummer.getShard_mirrors

theorem sync_mirrors :
    ∀ (H : Hist) (c c' : Shard) (ci : ShardInfo) (t : Nat) (rej : Bool),
      Shard.Mirrors H c →
        ShardInfo.Consistent H ci →
          c.shardId = ci.shardId →
            Shard.sync c ci t = Outcome.ok (rej, c') →
              Shard.Mirrors H c' ∧ c'.shardId = c.shardId ∧ c'.cci = max c.cci ci.cci :=
  @_root_.Drummer.sync_mirrors

theorem sync_newer :
    ∀ (c c' : Shard) (ci : ShardInfo) (t : Nat),
      Shard.WF c →
        ShardInfo.WF ci →
          c.cci < ci.cci →
            Shard.sync c ci t = Outcome.ok (false, c') →
              c'.cci = ci.cci ∧
                ∀ (n : Replica),
                  n ∈ c'.replicas ↔
                    (n ∈ c.replicas ∧ ∃ a, (n.replicaId, a) ∈ ci.replicas) ∨
                      ∃ a,
                        (n.replicaId, a) ∈ ci.replicas ∧
                          Shard.find? c n.replicaId = none ∧
                            n = { shardId := ci.shardId, replicaId := n.replicaId, address := a, firstObserved := t } :=
  @_root_.Drummer.sync_newer

theorem update_mirrors :
    ∀ (H : Hist) (mc mc' : MultiShard) (nhi : NodeHostInfo),
      (∀ (c : Shard), c ∈ mc.shards → Shard.Mirrors H c) →
        (∀ (ci : ShardInfo), ci ∈ nhi.shardInfo → ¬(ci.pending || ci.incomplete) = true → ShardInfo.Consistent H ci) →
          MultiShard.update mc nhi = Outcome.ok mc' → ∀ (c : Shard), c ∈ mc'.shards → Shard.Mirrors H c :=
  @_root_.Drummer.update_mirrors

theorem version_bounded_by_reported :
    ∀ (B : Nat) (mc mc' : MultiShard) (nhi : NodeHostInfo),
      (∀ (c : Shard), c ∈ mc.shards → c.cci ≤ B) →
        (∀ (ci : ShardInfo), ci ∈ nhi.shardInfo → ci.cci ≤ B) →
          MultiShard.update mc nhi = Outcome.ok mc' → ∀ (c : Shard), c ∈ mc'.shards → c.cci ≤ B :=
  @_root_.Drummer.update_cci_le

/-! ### at most one replica per shard is marked leader: for every command history, whatever the reports look like -/

theorem at_most_one_leader_id_over_histories :
    ∀ (cs : List Cmd) (d : DB),
      runCmds { } cs = Outcome.ok d → ∀ (c : Shard), c ∈ d.image.shards → Shard.Lead c :=
  @_root_.Drummer.at_most_one_leader_id

theorem one_report_keeps_one_leader_id :
    ∀ (mc mc' : MultiShard) (nhi : NodeHostInfo),
      (∀ (c : Shard), c ∈ mc.shards → Shard.Lead c) →
        MultiShard.update mc nhi = Outcome.ok mc' → ∀ (c : Shard), c ∈ mc'.shards → Shard.Lead c :=
  @_root_.Drummer.update_lead

theorem one_leader_id_is_at_most_one_flagged_member :
    ∀ (c : Shard),
      List.Nodup (List.map (fun x => x.replicaId) c.replicas) →
        Shard.Lead c → List.length (List.filter (fun x => x.isLeader) c.replicas) ≤ 1 :=
  @_root_.Drummer.lead_count_le_one


/-! ### the time a member was first seen survives for as long as it stays a member: the merge of a newer membership
    keeps the whole record of every member that stays (new members get the current time), the stamping pass rewrites
    report times only -/

theorem merge_keeps_the_record_of_members_that_stay :
    ∀ (c c' : Shard) (ci : ShardInfo) (t : Nat) (rej : Bool),
      List.Nodup (List.map (fun x => x.replicaId) c.replicas) →
        Shard.sync c ci t = Outcome.ok (rej, c') →
          ∀ (r : Replica), r ∈ c.replicas → ∀ (r' : Replica), r' ∈ c'.replicas → r'.replicaId = r.replicaId → r' = r :=
  @_root_.Drummer.sync_keeps_first_observed

theorem stamping_pass_keeps_first_seen_times :
    ∀ (mc : MultiShard) (nhi : NodeHostInfo) (c' : Shard),
      c' ∈ (updateNodeTick mc nhi).shards →
        ∃ c,
          c ∈ mc.shards ∧
            c.shardId = c'.shardId ∧
              c.cci = c'.cci ∧
                List.map (fun r => (r.replicaId, r.address, r.firstObserved)) c'.replicas =
                  List.map (fun r => (r.replicaId, r.address, r.firstObserved)) c.replicas :=
  @_root_.Drummer.updateNodeTick_first_observed


/-! ### mirrors the newest report, leader part (one entry) -/

theorem leader_flag_follows_the_members_report :
    ∀ (mc : MultiShard) (ci : ShardInfo) (c : Shard) (n : Replica),
      MultiShard.find? mc ci.shardId = some c →
        List.Nodup (List.map (fun x => x.replicaId) c.replicas) →
          ¬c.cci > ci.cci →
            Shard.find? c ci.replicaId = some n →
              ∀ (nhi : NodeHostInfo),
                nhi.shardInfo = [ci] →
                  ∃ c',
                    MultiShard.find? (syncLeaderInfo mc nhi) ci.shardId = some c' ∧
                      c'.cci = c.cci ∧
                        ∀ (r : Replica), r ∈ c'.replicas → r.replicaId = ci.replicaId → r.isLeader = ci.isLeader :=
  @_root_.Drummer.leader_flag_follows_report


end C04
end Drummer

namespace Drummer.C04
/-! non-vacuity: a concrete history — a stale report after a newer one — meets the hypotheses -/
def Hdemo : Hist := fun s v => if s = 1 ∧ v = 5 then [(1, "a1"), (2, "a2"), (3, "a3")] else if s = 1 ∧ v = 9 then [(1, "a1"), (2, "a2"), (4, "a4")] else []
def rep (addr : Addr) (rid cci : Nat) (reps : List (Nat × Addr)) : Cmd :=
  .report { raftAddress := addr, shardInfo := [{ shardId := 1, replicaId := rid, cci := cci, replicas := reps }], shardIdList := [1] }
def demo : List Cmd :=
  [.tick, rep "a1" 1 5 [(1, "a1"), (2, "a2"), (3, "a3")], rep "a2" 2 9 [(1, "a1"), (2, "a2"), (4, "a4")],
   rep "a3" 3 5 [(1, "a1"), (2, "a2"), (3, "a3")]]
/-- the history runs, and the view ends at version 9 with members 1, 2, 4 although the last report carried version 5 -/
example : (match runCmds {} demo with
    | .ok d => d.image.shards.map (fun c => (c.shardId, c.cci, c.replicas.map (·.replicaId)))
    | .panic _ => []) = [(1, 9, [1, 2, 4])] := by decide
end Drummer.C04
