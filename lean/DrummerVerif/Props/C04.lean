import DrummerVerif.Lemmas.C04
import DrummerVerif.Lemmas.C04a
import DrummerVerif.Lemmas.LoopSys
/-!
# C04 — the membership view only moves forward and mirrors the newest complete report

Property theorems only; every proof is a reference to a lemma in `Lemmas/`. The statement printed here is
the full statement (all quantifiers explicit).
-/
namespace Drummer
namespace C04

theorem first_report_mirrors :
    ∀ (H : Hist) (ci : ShardInfo) (t : Nat), ShardInfo.Consistent H ci → Shard.Mirrors H (getShard ci t) :=
  @_root_.Drummer.getShard_mirrors

theorem sync_mirrors :
    ∀ (H : Hist) (c c' : Shard) (ci : ShardInfo) (t : Nat) (rej : Bool),
    Shard.Mirrors H c →
    ShardInfo.Consistent H ci →
    c.shardId = ci.shardId →
    Shard.sync c ci t = Outcome.ok (rej, c') →
    Shard.Mirrors H c' ∧ c'.shardId = c.shardId ∧ c'.cci = max c.cci ci.cci :=
  @_root_.Drummer.sync_mirrors

theorem sync_newer :
    ∀ (c c' : Shard) (ci : ShardInfo) (t : Nat),
    Shard.WF c →
    ShardInfo.WF ci →
    c.cci < ci.cci →
    Shard.sync c ci t = Outcome.ok (false, c') →
    c'.cci = ci.cci ∧
    ∀ (n : Replica),
    n ∈ c'.replicas ↔
    (n ∈ c.replicas ∧ ∃ a, (n.replicaId, a) ∈ ci.replicas) ∨
    ∃ a,
    (n.replicaId, a) ∈ ci.replicas ∧
    Shard.find? c n.replicaId = none ∧
    n = { shardId := ci.shardId, replicaId := n.replicaId, address := a, firstObserved := t } :=
  @_root_.Drummer.sync_newer

theorem update_mirrors :
    ∀ (H : Hist) (mc mc' : MultiShard) (nhi : NodeHostInfo),
    (∀ (c : Shard), c ∈ mc.shards → Shard.Mirrors H c) →
    (∀ (ci : ShardInfo), ci ∈ nhi.shardInfo → ¬(ci.pending || ci.incomplete) = true → ShardInfo.Consistent H ci) →
    MultiShard.update mc nhi = Outcome.ok mc' → ∀ (c : Shard), c ∈ mc'.shards → Shard.Mirrors H c :=
  @_root_.Drummer.update_mirrors

theorem version_never_decreases :
    ∀ (B : Nat) (mc mc' : MultiShard) (nhi : NodeHostInfo),
    (∀ (c : Shard), c ∈ mc.shards → c.cci ≤ B) →
    (∀ (ci : ShardInfo), ci ∈ nhi.shardInfo → ci.cci ≤ B) →
    MultiShard.update mc nhi = Outcome.ok mc' → ∀ (c : Shard), c ∈ mc'.shards → c.cci ≤ B :=
  @_root_.Drummer.update_cci_le

end C04
end Drummer
