import DrummerVerif.Lemmas.C05
import DrummerVerif.Lemmas.C05H
import DrummerVerif.Lemmas.C05L
import DrummerVerif.Bridge.Bridge
import DrummerVerif.Lemmas.C05S
/-!
# C05 — failure detection: replica classes and shard availability follow report history

Property theorems only; every proof is a reference to a lemma in `Lemmas/`. The statement printed here is
the full statement (all quantifiers explicit).
-/
namespace Drummer
namespace C05

theorem class_characterisation :
    ∀ (n : Replica) (now : Nat),
    n.tick ≤ now →
    now < 18446744073709551616 →
    (Replica.ok n now = true ↔ n.tick > 0 ∧ now - n.tick ≤ nodeHostTTL) ∧
    (Replica.failed n now = true ↔ n.tick > 0 ∧ now - n.tick > nodeHostTTL ∨ n.tick = 0 ∧ n.firstObserved = 0) ∧
    (Replica.waiting n now = true ↔ n.tick = 0 ∧ n.firstObserved > 0) :=
  @_root_.Drummer.class_characterisation

theorem classes_exclusive :
    ∀ (n : Replica) (now : Nat),
    (Replica.ok n now && Replica.failed n now) = false ∧
    (Replica.ok n now && Replica.waiting n now) = false ∧
    (Replica.failed n now && Replica.waiting n now) = false ∧
    (Replica.ok n now || Replica.failed n now || Replica.waiting n now) = true :=
  @_root_.Drummer.classes_exclusive

theorem classes_partition :
    ∀ (c : Shard) (now : Nat),
    List.length (Shard.okReplicas c now) + List.length (Shard.failedReplicas c now) + List.length (Shard.toStart c now) =
    List.length c.replicas :=
  @_root_.Drummer.classes_partition

theorem available_iff_strict_majority :
    ∀ (c : Shard) (now : Nat),
    Shard.available c now = true ↔ 2 * List.length (Shard.okReplicas c now) > List.length c.replicas :=
  @_root_.Drummer.available_iff_strict_majority

theorem silent_host_never_used :
    ∀ (h : HostSpec) (now : Nat),
    h.tick ≤ now →
    now < 18446744073709551616 →
    (now - h.tick > nodeHostTTL → HostSpec.restoreOK h now = false ∧ HostSpec.placementOK h now = false) ∧
    (now - h.tick < nodeHostTTL → HostSpec.restoreOK h now = true ∧ HostSpec.placementOK h now = true) :=
  @_root_.Drummer.silent_host_never_used

theorem tick_step :
    ∀ (d d' : DB) (c : Cmd) (n : Nat) (h : DB.apply d c = Outcome.ok (d', n)),
    match c, h with
    | Cmd.tick, h => d'.tick = d.tick + tickInterval
    | x, h => d'.tick = d.tick :=
  @_root_.Drummer.tick_step

theorem stored_le_now :
    ∀ (cs : List Cmd) (d d' : DB), runCmds d cs = Outcome.ok d' → DB.TicksOK d → DB.TicksOK d' :=
  @_root_.Drummer.stored_le_now

theorem report_law :
    ∀ (cs : List Cmd) (d d' : DB) (nhi : NodeHostInfo) (n : Nat),
    runCmds { } cs = Outcome.ok d →
    DB.applyReport d nhi = Outcome.ok (d', n) →
    ∀ (c : Shard),
    c ∈ d'.image.shards →
    ∀ (r' : Replica),
    r' ∈ c.replicas →
    ((∃ ci, ci ∈ nhi.shardInfo ∧ ci.shardId = c.shardId ∧ ci.replicaId = r'.replicaId) → r'.tick = d.tick) ∧
    ((¬∃ ci, ci ∈ nhi.shardInfo ∧ ci.shardId = c.shardId ∧ ci.replicaId = r'.replicaId) →
    Src d.image d.tick c.shardId r') :=
  @_root_.Drummer.report_law

theorem report_stamps_listed :
    ∀ (mc mc' : MultiShard) (nhi : NodeHostInfo),
    UniqueShards mc →
    MultiShard.update mc nhi = Outcome.ok mc' → UniqueShards mc' ∧ StampedBy nhi.lastTick nhi.shardInfo mc' :=
  @_root_.Drummer.update_stamps

theorem report_keeps_unlisted :
    ∀ (mc mc' : MultiShard) (nhi : NodeHostInfo),
    MultiShard.update mc nhi = Outcome.ok mc' →
    ∀ (c : Shard),
    c ∈ mc'.shards →
    ∀ (r' : Replica),
    r' ∈ c.replicas →
    (¬∃ ci, ci ∈ nhi.shardInfo ∧ ci.shardId = c.shardId ∧ ci.replicaId = r'.replicaId) →
    Src mc nhi.lastTick c.shardId r' :=
  @_root_.Drummer.update_unlisted

theorem stamped_is_healthy :
    ∀ (r : Replica) (now : Nat),
    0 < now → now < 18446744073709551616 → r.tick = now → Replica.failed r now = false ∧ Replica.waiting r now = false :=
  @_root_.Drummer.stamped_is_ok

theorem code_entityFailed :
    ∀ (a b : Nat), Gen.entityFailed a b = entityFailed a b :=
  @_root_.Drummer.bridge_entityFailed

theorem code_failed :
    ∀ (n : Replica) (t : Nat), Gen.replica_failed n t = Replica.failed n t :=
  @_root_.Drummer.bridge_failed

theorem code_waiting :
    ∀ (n : Replica) (t : Nat), Gen.replica_waiting n t = Replica.waiting n t :=
  @_root_.Drummer.bridge_waiting

theorem code_quorum :
    ∀ (c : Shard), Gen.shard_quorum c = Shard.quorum c :=
  @_root_.Drummer.bridge_quorum

theorem code_available :
    ∀ (c : Shard) (t : Nat), Gen.shard_available c t = Shard.available c t :=
  @_root_.Drummer.bridge_available

theorem code_host_available :
    ∀ (h : HostSpec) (t : Nat), Gen.host_available h t = HostSpec.available h t :=
  @_root_.Drummer.bridge_hostAvailable

theorem code_liveFilter :
    ∀ (t gap : Nat) (hs : List HostSpec),
    Gen.liveFilter_filter t gap hs = List.filter (liveFilter t gap) hs :=
  @_root_.Drummer.bridge_liveFilter

/-! ### detection over whole histories: a member that is no longer reported keeps its report time and is classified
    failed once the timeout has passed on the logical clock - whatever else is applied in between -/

/-- along ANY command history in which no report lists replica `rid` of shard `s` (ticks, other NodeHosts' reports in
any order, request batches, KV writes, definitions - any number), every record the final views hold for it is one the
initial views held for it (same report time, same first-seen time), or has no report time at all (a member added anew) -/
theorem silent_member_keeps_its_record :
    ∀ (cs : List Cmd) (d d' : DB), runCmds d cs = Outcome.ok d' → ∀ (s rid : Nat),
      (∀ c ∈ cs, ¬ Cmd.lists s rid c) →
      ∀ c' ∈ d'.image.shards, c'.shardId = s → ∀ r' ∈ c'.replicas, r'.replicaId = rid →
        (∃ c ∈ d.image.shards, c.shardId = s ∧ ∃ r ∈ c.replicas,
          r.replicaId = r'.replicaId ∧ r.tick = r'.tick ∧ r.firstObserved = r'.firstObserved) ∨ r'.tick = 0 :=
  @_root_.Drummer.silent_member_keeps_its_record

/-- the logical clock is the number of tick commands applied, times the fixed step (time advances only by ticks) -/
theorem clock_counts_ticks :
    ∀ (cs : List Cmd) (d d' : DB), runCmds d cs = Outcome.ok d' → d'.tick = d.tick + ticksIn cs * tickInterval :=
  @_root_.Drummer.clock_counts_ticks

/-- **a silent member is detected**: last reported at the positive time `t0`, then any history without a report listing
it whose ticks carry the clock more than the failure timeout past `t0`: whatever record the views hold for it at the end
is classified failed (or belongs to a member added anew, with no report time). -/
theorem silent_member_is_detected :
    ∀ (cs : List Cmd) (d d' : DB), runCmds d cs = Outcome.ok d' → ∀ (s rid t0 : Nat),
      (∀ c ∈ cs, ¬ Cmd.lists s rid c) →
      (∀ c ∈ d.image.shards, c.shardId = s → ∀ r ∈ c.replicas, r.replicaId = rid → r.tick = t0) →
      0 < t0 → t0 ≤ d.tick → d'.tick < 18446744073709551616 →
      d.tick + ticksIn cs * tickInterval - t0 > nodeHostTTL →
      ∀ c' ∈ d'.image.shards, c'.shardId = s → ∀ r' ∈ c'.replicas, r'.replicaId = rid →
        Replica.failed r' d'.tick = true ∨ r'.tick = 0 :=
  @_root_.Drummer.silent_member_is_detected

end C05
end Drummer
