import DrummerVerif.Lemmas.C06R
import DrummerVerif.Model.Etcd
/-!
# C06 — the linearizability checker's verdict is exact

Property theorems only; every proof is a reference to a lemma in `Lemmas/`. The statement printed here is
the full statement (all quantifiers explicit).
-/
namespace WGL
namespace C06

theorem check_exact :
    ∀ {S I O : Type} (m : Model S I O) (inp : Nat → I) (out : Nat → O) [inst : DecidableEq S]
    (H : List Entry),
    WFHist H → ((dfs m inp out (List.length H + 1) H m.init [] []).fst = true ↔ Linearizable m inp out H m.init) :=
  @_root_.WGL.check_exact

theorem search_iff_inductive_characterisation :
    ∀ {S I O : Type} [inst : DecidableEq S] (m : Model S I O) (inp : Nat → I) (out : Nat → O) (H : List Entry),
    (dfs m inp out (List.length H + 1) H m.init [] []).fst = true ↔ Lin m inp out H m.init :=
  @_root_.WGL.check_iff

theorem linearizable_rename_iff :
    ∀ {S I O : Type} (m : Model S I O) (inp : Nat → I) (out : Nat → O) (H : List Entry) (st : S)
    (f g : Nat → Nat),
    (∀ (i : Nat), i ∈ ids H → g (f i) = i) →
    (Linearizable m (inp ∘ g) (out ∘ g) (rename f H) st ↔ Linearizable m inp out H st) :=
  @_root_.WGL.linearizable_rename_iff

theorem wf_rename :
    ∀ (f g : Nat → Nat) (H : List Entry),
    (∀ (i : Nat), i ∈ ids H → g (f i) = i) → WFHist H → WFHist (rename f H) :=
  @_root_.WGL.wf_rename

theorem verdict_renaming_invariant :
    ∀ {S I O : Type} [inst : DecidableEq S] (m : Model S I O) (inp : Nat → I) (out : Nat → O)
    (H : List Entry),
    WFHist H →
    ∀ (f g : Nat → Nat),
    (∀ (i : Nat), i ∈ ids H → g (f i) = i) →
    ((dfs m (inp ∘ g) (out ∘ g) (List.length (rename f H) + 1) (rename f H) m.init [] []).fst = true ↔
    (dfs m inp out (List.length H + 1) H m.init [] []).fst = true) :=
  @_root_.WGL.verdict_renaming_invariant

theorem register_read :
    ∀ (st : Int) (i o : Op),
    i.op = 0 → etcd.step st i o = (!o.ex && st == -1000000 || o.ex && st == o.val || o.unk, st) :=
  @_root_.WGL.etcd_step_read

theorem register_write :
    ∀ (st : Int) (i o : Op), i.op = 1 → etcd.step st i o = (true, i.a1) :=
  @_root_.WGL.etcd_step_write

theorem register_cas :
    ∀ (st : Int) (i o : Op),
    i.op ≠ 0 →
    i.op ≠ 1 →
    etcd.step st i o = (i.a1 == st && o.ok || i.a1 != st && !o.ok || o.unk, if (i.a1 == st) = true then i.a2 else st) :=
  @_root_.WGL.etcd_step_cas

end C06
end WGL
