import DrummerVerif.Lemmas.C07P
import DrummerVerif.Lemmas.LcmN
import DrummerVerif.Lemmas.C07W
import DrummerVerif.Bridge.Bridge
/-!
# C07 — recorded client histories are faithful and survive the log round trip

Property theorems only; every proof is a reference to a lemma in `Lemmas/`. The statement printed here is
the full statement (all quantifiers explicit).
-/
namespace Jepsen
namespace C07

theorem line_tokens :
    ∀ (e : Ev),
    tokens (fmt e) =
    [String.toList "INFO", String.toList "jepsen.util", String.toList "-", digits e.id, resStr e, typStr e, valField e] :=
  @_root_.Jepsen.tokens_fmt

theorem line_classified_as_meant :
    ∀ (e : Ev),
    (e.typ = Typ.write → e.res ≠ Res.fail → e.value ≠ none) → classify (tokens (fmt e)) = meaning e :=
  @_root_.Jepsen.classify_fmt

theorem log_parses_to_recorded_operations :
    ∀ (es : List Ev),
    (∀ (e : Ev), e ∈ es → e.typ = Typ.write → e.res ≠ Res.fail → e.value ≠ none) →
    parseLog (List.map fmt es) = List.filterMap meaning es :=
  @_root_.Jepsen.parseLog_fmt

theorem id_roundtrip :
    ∀ (n : Nat), Nat.ofDigitChars 10 (digits n) 0 = n :=
  @_root_.Jepsen.id_roundtrip

end C07
end Jepsen

namespace Lcm
namespace C07

theorem process_automaton_never_bad :
    ∀ (s : L), Reach genProg s → s.bad = false :=
  @_root_.Lcm.all_good

theorem all_processes_never_bad :
    ∀ (n : Nat) (g : List L), GReach genProg n g → ∀ (s : L), s ∈ g → s.bad = false :=
  @_root_.Lcm.all_processes_good

end C07
end Lcm

namespace WGL
namespace C07

theorem faithful_history_linearizable :
    ∀ {S I O : Type} (m : Model S I O) (inp : Nat → I) (out : Nat → O)
    (Htrue Hrec : List Entry) (st : S),
    List.Perm (opIds Hrec) (opIds Htrue) →
    (∀ (a b : Nat), Prec Hrec a b → Prec Htrue a b) → Linearizable m inp out Htrue st → Linearizable m inp out Hrec st :=
  @_root_.WGL.faithful_history_linearizable

theorem faithful_history_accepted :
    ∀ {S I O : Type} [inst : DecidableEq S] (m : Model S I O) (inp : Nat → I) (out : Nat → O)
    (Htrue Hrec : List Entry),
    WFHist Hrec →
    List.Perm (opIds Hrec) (opIds Htrue) →
    (∀ (a b : Nat), Prec Hrec a b → Prec Htrue a b) →
    Linearizable m inp out Htrue m.init → (dfs m inp out (List.length Hrec + 1) Hrec m.init [] []).fst = true :=
  @_root_.WGL.faithful_history_accepted

end C07
end WGL

namespace Drummer
namespace C07

theorem start_write_order_ok :
    StartOK Gen.prog_StartWrite = true :=
  @_root_.Drummer.startWrite_ok

theorem start_read_order_ok :
    StartOK Gen.prog_StartRead = true :=
  @_root_.Drummer.startRead_ok

end C07
end Drummer
