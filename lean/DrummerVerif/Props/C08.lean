import DrummerVerif.Lemmas.C08Q
import DrummerVerif.Lemmas.LaunchF
import DrummerVerif.Bridge.Bridge
/-!
# C08 — launch planning is all-or-nothing, valid, and never crashes

Property theorems only; every proof is a reference to a lemma in `Lemmas/`. The statement printed here is
the full statement (all quantifiers explicit).
-/
namespace Drummer
namespace C08

theorem launch_never_crashes :
    ∀ (cx : Ctx) (draws : List Nat) (w : String), launchF cx draws = SRes.panic w → w = "exhausted" :=
  @_root_.Drummer.launchF_no_crash

theorem launch_shard_never_crashes :
    ∀ (cx : Ctx) (rg : Regions) (d : ShardDef) (draws : List Nat) (w : String),
    launchShardF cx rg d draws = SRes.panic w → w = "exhausted" :=
  @_root_.Drummer.launchShardF_no_crash

theorem launch_shard_valid :
    ∀ (cx : Ctx) (rg : Regions) (d : ShardDef) (draws : List Nat) (reqs : List Request)
    (rest : List Nat),
    launchShardF cx rg d draws = SRes.ok reqs rest →
    List.length reqs = List.length d.members ∧
    List.map (fun x => x.instantiateReplicaId) reqs = d.members ∧
    List.Nodup (List.map (fun x => x.raftAddress) reqs) ∧
    ∀ (r : Request),
    r ∈ reqs →
    r.type = ReqType.create ∧
    r.join = false ∧
    r.restore = false ∧
    r.shardId = d.shardId ∧
    r.replicaIdList = d.members ∧
    r.addressList = List.map (fun x => x.raftAddress) reqs ∧
    r.appName = d.appName ∧
    ∃ hst,
    hst ∈ cx.hosts ∧
    hst.address = r.raftAddress ∧
    liveFilter cx.tick nodeHostTTL hst = true ∧
    basicFilter d.shardId hst = true ∧ hst.region ∈ rg.region :=
  @_root_.Drummer.launchShardF_valid

theorem launch_complete :
    ∀ (cx : Ctx) (draws rest : List Nat) (rs : List Request),
    launchF cx draws = SRes.ok rs rest →
    ∃ rg plans, cx.regions = some rg ∧ rs = List.flatten plans ∧ Plans cx rg cx.defs plans :=
  @_root_.Drummer.launchF_complete

theorem launch_count :
    ∀ (cx : Ctx) (draws rest : List Nat) (rs : List Request),
    launchF cx draws = SRes.ok rs rest → List.length rs = List.sum (List.map (fun x => List.length x.members) cx.defs) :=
  @_root_.Drummer.launchF_count

theorem launch_quota :
    ∀ (cx : Ctx) (rg : Regions) (d : ShardDef) (draws : List Nat) (reqs : List Request)
    (rest : List Nat),
    launchShardF cx rg d draws = SRes.ok reqs rest →
    ∃ parts,
    Parts cx d.shardId (List.zip rg.region rg.count) parts ∧
    List.map (fun x => List.length x) parts = List.map (fun x => x.snd) (List.zip rg.region rg.count) ∧
    List.map (fun x => x.raftAddress) reqs =
    List.map (fun x => x.address) (List.take (List.length d.members) (List.flatten parts)) :=
  @_root_.Drummer.launchShardF_quota

theorem code_liveFilter :
    ∀ (t gap : Nat) (hs : List HostSpec),
    Gen.liveFilter_filter t gap hs = List.filter (liveFilter t gap) hs :=
  @_root_.Drummer.bridge_liveFilter

theorem code_regionFilter :
    ∀ (r : String) (hs : List HostSpec),
    Gen.regionFilter_filter r hs = List.filter (fun h => r == h.region) hs :=
  @_root_.Drummer.bridge_regionFilter

end C08
end Drummer
