import DrummerVerif.Lemmas.C09D
import DrummerVerif.Lemmas.C13B
import DrummerVerif.Bridge.Bridge
/-!
# C09 — launch is accepted once; a missed launch deadline fail-stops every replica

Property theorems only; every proof is a reference to a lemma in `Lemmas/`. The statement printed here is
the full statement (all quantifiers explicit).
-/
namespace Drummer
namespace C09

theorem never_mixed :
    ∀ (d d' : DB) (rs : List Request) (n : Nat),
    DB.applyRequests d rs = Outcome.ok (d', n) →
    (∀ (r : Request), r ∈ rs → isLaunchReq r = true) ∨ ∀ (r : Request), r ∈ rs → isLaunchReq r = false :=
  @_root_.Drummer.never_mixed

theorem launch_batch_shape :
    ∀ (rs : List Request) (b : Bool),
    isLaunchBatch rs = Outcome.ok b →
    (b = true → rs ≠ [] ∧ ∀ (r : Request), r ∈ rs → isLaunchReq r = true) ∧
    (b = false → ∀ (r : Request), r ∈ rs → isLaunchReq r = false) :=
  @_root_.Drummer.isLaunchBatch_spec

theorem launch_ignored_when_launched :
    ∀ (d d' : DB) (rs : List Request) (n : Nat),
    DB.launched d = true →
    isLaunchBatch rs = Outcome.ok true → DB.applyRequests d rs = Outcome.ok (d', n) → d' = d ∧ n = 0 :=
  @_root_.Drummer.launch_ignored_when_launched

theorem launch_accepted :
    ∀ (d d' : DB) (rs : List Request) (n : Nat),
    DB.launched d = false →
    isLaunchBatch rs = Outcome.ok true →
    DB.applyRequests d rs = Outcome.ok (d', n) →
    DB.launched d' = true ∧ d'.launchDeadline = d.tick + launchDeadlineTick * tickInterval ∧ n = List.length rs :=
  @_root_.Drummer.launch_accepted

theorem launched_forever :
    ∀ (cs : List Cmd) (d d' : DB),
    runCmds d cs = Outcome.ok d' → DB.launched d = true → DB.launched d' = true :=
  @_root_.Drummer.launched_forever

theorem tick_failstop_iff :
    ∀ (d : DB),
    d.failed = false →
    ((∃ w, DB.apply d Cmd.tick = Outcome.panic w) ↔ d.launchDeadline > 0 ∧ d.tick + tickInterval > d.launchDeadline) :=
  @_root_.Drummer.tick_failstop_iff

theorem report_disarms :
    ∀ (d d' : DB) (nhi : NodeHostInfo) (n : Nat),
    DB.applyReport d nhi = Outcome.ok (d', n) → DB.allLaunched d' = true → d'.launchDeadline = 0 :=
  @_root_.Drummer.report_disarms

theorem deadline_history :
    ∀ (cs : List Cmd) (d d' : DB),
    runCmds d cs = Outcome.ok d' → (DB.DeadlineOK d → DB.DeadlineOK d') ∧ (DB.Disarmed d → DB.Disarmed d') :=
  @_root_.Drummer.deadline_history

theorem disarmed_forever :
    ∀ (d d' : DB) (c : Cmd) (n : Nat), DB.apply d c = Outcome.ok (d', n) → DB.Disarmed d → DB.Disarmed d' :=
  @_root_.Drummer.apply_disarmed

theorem failed_persisted :
    "Failed" ∈ Gen.dbRestored ∧ "LaunchDeadline" ∈ Gen.dbRestored :=
  @_root_.Drummer.failed_persisted

theorem deadline_condition_is_the_codes :
    ∀ (d : DB),
    Gen.deadline_missed d = (decide (d.launchDeadline > 0) && decide (d.tick > d.launchDeadline)) :=
  @_root_.Drummer.bridge_deadlineMissed

theorem launch_request_test_is_the_codes :
    ∀ (r : Request), Gen.is_launch_request r = isLaunchReq r :=
  @_root_.Drummer.bridge_isLaunchReq

end C09
end Drummer
