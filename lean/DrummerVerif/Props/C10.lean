import DrummerVerif.Lemmas.C10H
import DrummerVerif.Lemmas.Small
/-!
# C10 — requests reach only their addressee, after a report, at most once

Property theorems only; every proof is a reference to a lemma in `Lemmas/`. The statement printed here is
the full statement (all quantifiers explicit).
-/
namespace Drummer
namespace C10

theorem history_refines :
    ∀ (a : Addr) (cs : List Cmd) (d d' : DB) (b : Box),
    runCmds d cs = Outcome.ok d' → Rel d a b → Rel d' a (boxRun a d b cs) :=
  @_root_.Drummer.history_refines

theorem report_reply :
    ∀ (d d' : DB) (nhi : NodeHostInfo) (n : Nat) (a : Addr) (b : Box),
    DB.applyReport d nhi = Outcome.ok (d', n) →
    Rel d a b →
    Rel d' a (Box.report b nhi.raftAddress a) ∧
    (nhi.raftAddress = a → n = List.length (Option.getD b.pend []) ∧ DB.lookupRequests d' a = Option.getD b.pend []) :=
  @_root_.Drummer.applyReport_refines

theorem schedule_refines :
    ∀ (d d' : DB) (rs : List Request) (n : Nat) (a : Addr) (b : Box),
    DB.applyRequests d rs = Outcome.ok (d', n) →
    Rel d a b → Rel d' a (Box.sched b true rs a) ∧ n = List.length rs ∨ d' = d ∧ n = 0 :=
  @_root_.Drummer.applyRequests_refines

theorem step_refines :
    ∀ (d d' : DB) (c : Cmd) (n : Nat) (a : Addr) (b : Box),
    DB.apply d c = Outcome.ok (d', n) → Rel d a b → Rel d' a (Box.step b d a c) :=
  @_root_.Drummer.apply_refines

theorem only_addressee :
    ∀ (a : Addr) (cs : List Cmd) (d' : DB),
    runCmds { } cs = Outcome.ok d' → ∀ (r : Request), r ∈ DB.lookupRequests d' a → r.raftAddress = a :=
  @_root_.Drummer.only_addressee

/-! ### a round without requests is not a launch (it cannot use up the one launch the DB accepts) -/

theorem empty_round_is_not_a_launch :
    ∀ (d : DB),
      DB.applyRequests d [] = Outcome.ok (DB.mergeRequests d [], 0) ∧
        (DB.mergeRequests d []).kv = d.kv ∧
          (DB.mergeRequests d []).launchDeadline = d.launchDeadline ∧ (DB.mergeRequests d []).requests = d.requests :=
  @_root_.Drummer.empty_round_is_not_a_launch


end C10
end Drummer
