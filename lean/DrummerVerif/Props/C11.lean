import DrummerVerif.Lemmas.C11
import DrummerVerif.Bridge.Bridge
/-!
# C11 — only stray replicas are killed, and kill requests stop once they are gone

Property theorems only; every proof is a reference to a lemma in `Lemmas/`. The statement printed here is
the full statement (all quantifiers explicit).
-/
namespace Drummer
namespace C11

theorem kill_test_spec :
    ∀ (c : Shard) (ci : ShardInfo),
    Shard.killRequestRequired c ci = true → c.cci > ci.cci ∧ ∀ (r : Replica), r ∈ c.replicas → r.replicaId ≠ ci.replicaId :=
  @_root_.Drummer.killRequestRequired_spec

theorem kill_entry_justified :
    ∀ (t : Nat) (mc mc' : MultiShard) (ci : ShardInfo),
    doUpdate1 t mc ci = Outcome.ok (mc', true) →
    ∃ c,
    c ∈ mc'.shards ∧
    c.shardId = ci.shardId ∧ c.cci > ci.cci ∧ ∀ (r : Replica), r ∈ c.replicas → r.replicaId ≠ ci.replicaId :=
  @_root_.Drummer.doUpdate1_kill_justified

theorem kill_list_after_report :
    ∀ (mc mc' : MultiShard) (nhi : NodeHostInfo),
    MultiShard.update mc nhi = Outcome.ok mc' →
    ∀ (k : KillEntry),
    k ∈ mc'.toKill →
    k.address ≠ nhi.raftAddress ∧ k ∈ mc.toKill ∨
    k.address = nhi.raftAddress ∧ ∃ ci, ci ∈ nhi.shardInfo ∧ k.shardId = ci.shardId ∧ k.replicaId = ci.replicaId :=
  @_root_.Drummer.update_kill_list

theorem code_kill_guard :
    ∀ (c : Shard) (ci : ShardInfo), Gen.kill_version_guard c ci = decide (c.cci ≤ ci.cci) :=
  @_root_.Drummer.bridge_killGuard

end C11
end Drummer
