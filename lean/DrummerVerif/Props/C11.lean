import DrummerVerif.Lemmas.C11
import DrummerVerif.Lemmas.C11S
import DrummerVerif.Bridge.Bridge
/-!
# C11 — only stray replicas are killed, and kill requests stop once they are gone

Property theorems only; every proof is a reference to a lemma in `Lemmas/`. The statement printed here is
the full statement (all quantifiers explicit).
-/
namespace Drummer
namespace C11

theorem kill_test_spec :
    ∀ (c : Shard) (ci : ShardInfo),
    Shard.killRequestRequired c ci = true → c.cci > ci.cci ∧ ∀ (r : Replica), r ∈ c.replicas → r.replicaId ≠ ci.replicaId :=
  @_root_.Drummer.killRequestRequired_spec

theorem kill_entry_justified :
    ∀ (t : Nat) (mc mc' : MultiShard) (ci : ShardInfo),
    doUpdate1 t mc ci = Outcome.ok (mc', true) →
    ∃ c,
    c ∈ mc'.shards ∧
    c.shardId = ci.shardId ∧ c.cci > ci.cci ∧ ∀ (r : Replica), r ∈ c.replicas → r.replicaId ≠ ci.replicaId :=
  @_root_.Drummer.doUpdate1_kill_justified

theorem kill_list_after_report :
    ∀ (mc mc' : MultiShard) (nhi : NodeHostInfo),
    MultiShard.update mc nhi = Outcome.ok mc' →
    ∀ (k : KillEntry),
    k ∈ mc'.toKill →
    k.address ≠ nhi.raftAddress ∧ k ∈ mc.toKill ∨
    k.address = nhi.raftAddress ∧ ∃ ci, ci ∈ nhi.shardInfo ∧ k.shardId = ci.shardId ∧ k.replicaId = ci.replicaId :=
  @_root_.Drummer.update_kill_list

theorem code_kill_guard :
    ∀ (c : Shard) (ci : ShardInfo), Gen.kill_version_guard c ci = decide (c.cci ≤ ci.cci) :=
  @_root_.Drummer.bridge_killGuard

theorem kill_requests_exactly_the_recorded_strays :
    ∀ (cx : Ctx) (draws rest : List Nat) (rs : List Request),
      (∀ (cr : ShardRepair), cr ∈ cx.repairs → ∀ (x : Replica), x ∈ cr.failed → x.shardId = cr.shard.shardId) →
        maintain cx draws = SRes.ok rs rest →
          (∀ (k : KillEntry), k ∈ cx.toKill → killReq k ∈ rs) ∧
            (∀ (r : Request), r ∈ rs → r.type = ReqType.kill → ∃ k, k ∈ cx.toKill ∧ r = killReq k) ∧
              List.filter (fun x => x.type == ReqType.kill) rs = List.map killReq cx.toKill :=
  @_root_.Drummer.maintain_kills_exact

theorem entry_flagged_iff_stray :
    ∀ (t : Nat) (mc mc' : MultiShard) (ci : ShardInfo) (k : Bool),
      doUpdate1 t mc ci = Outcome.ok (mc', k) →
        (k = true ↔
          ∃ ec,
            MultiShard.find? mc ci.shardId = some ec ∧
              ec.cci > ci.cci ∧
                (∀ (r : Replica), r ∈ ec.replicas → r.replicaId ≠ ci.replicaId) ∧
                  ((ci.pending || ci.incomplete) = true → List.length ec.replicas > 0 ∧ ec.cci > 0)) :=
  @_root_.Drummer.doUpdate1_flag_iff

end C11
end Drummer
