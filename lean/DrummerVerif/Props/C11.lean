import DrummerVerif.Lemmas.C11
import DrummerVerif.Lemmas.C11S
import DrummerVerif.Lemmas.KStep
import DrummerVerif.Bridge.Bridge
/-!
# C11 — only stray replicas are killed, and kill requests stop once they are gone

Property theorems only; every proof is a reference to a lemma in `Lemmas/`. The statement printed here is
the full statement (all quantifiers explicit).
-/
namespace Drummer
namespace C11

theorem kill_test_spec :
    ∀ (c : Shard) (ci : ShardInfo),
    Shard.killRequestRequired c ci = true → c.cci > ci.cci ∧ ∀ (r : Replica), r ∈ c.replicas → r.replicaId ≠ ci.replicaId :=
  @_root_.Drummer.killRequestRequired_spec

theorem kill_entry_justified :
    ∀ (t : Nat) (mc mc' : MultiShard) (ci : ShardInfo),
    doUpdate1 t mc ci = Outcome.ok (mc', true) →
    ∃ c,
    c ∈ mc'.shards ∧
    c.shardId = ci.shardId ∧ c.cci > ci.cci ∧ ∀ (r : Replica), r ∈ c.replicas → r.replicaId ≠ ci.replicaId :=
  @_root_.Drummer.doUpdate1_kill_justified

theorem kill_list_after_report :
    ∀ (mc mc' : MultiShard) (nhi : NodeHostInfo),
    MultiShard.update mc nhi = Outcome.ok mc' →
    ∀ (k : KillEntry),
    k ∈ mc'.toKill →
    k.address ≠ nhi.raftAddress ∧ k ∈ mc.toKill ∨
    k.address = nhi.raftAddress ∧ ∃ ci, ci ∈ nhi.shardInfo ∧ k.shardId = ci.shardId ∧ k.replicaId = ci.replicaId :=
  @_root_.Drummer.update_kill_list

theorem code_kill_guard :
    ∀ (c : Shard) (ci : ShardInfo), Gen.kill_version_guard c ci = decide (c.cci ≤ ci.cci) :=
  @_root_.Drummer.bridge_killGuard

theorem kill_requests_exactly_the_recorded_strays :
    ∀ (cx : Ctx) (draws rest : List Nat) (rs : List Request),
      (∀ (cr : ShardRepair), cr ∈ cx.repairs → ∀ (x : Replica), x ∈ cr.failed → x.shardId = cr.shard.shardId) →
        maintain cx draws = SRes.ok rs rest →
          (∀ (k : KillEntry), k ∈ cx.toKill → killReq k ∈ rs) ∧
            (∀ (r : Request), r ∈ rs → r.type = ReqType.kill → ∃ k, k ∈ cx.toKill ∧ r = killReq k) ∧
              List.filter (fun x => x.type == ReqType.kill) rs = List.map killReq cx.toKill :=
  @_root_.Drummer.maintain_kills_exact

theorem entry_flagged_iff_stray :
    ∀ (t : Nat) (mc mc' : MultiShard) (ci : ShardInfo) (k : Bool),
      doUpdate1 t mc ci = Outcome.ok (mc', k) →
        (k = true ↔
          ∃ ec,
            MultiShard.find? mc ci.shardId = some ec ∧
              ec.cci > ci.cci ∧
                (∀ (r : Replica), r ∈ ec.replicas → r.replicaId ≠ ci.replicaId) ∧
                  ((ci.pending || ci.incomplete) = true → List.length ec.replicas > 0 ∧ ec.cci > 0)) :=
  @_root_.Drummer.doUpdate1_flag_iff

theorem member_never_killed_in_every_reachable_state :
    ∀ (size : Nat → Nat) (defIds : Nat → List Nat) (l l' : Loop),
      KInv size defIds l →
        KSteps size defIds l l' →
          (∀ (k : KillEntry),
              k ∈ l'.db.image.toKill →
                ∀ (g : Group),
                  Loop.group? l' k.shardId = some g → ¬k.replicaId ∈ List.map (fun x => x.fst) (Group.cur g).members) ∧
            (∀ (x : Host),
                x ∈ l'.hosts →
                  ∀ (r : Request),
                    r ∈ x.queue →
                      r.type = ReqType.kill →
                        ∀ (id : Nat),
                          List.head? r.members = some id →
                            ∀ (g : Group),
                              Loop.group? l' r.shardId = some g → ¬id ∈ List.map (fun x => x.fst) (Group.cur g).members) ∧
              ∀ (p : Addr × List Request),
                p ∈ l'.db.requests ++ l'.db.outgoing →
                  ∀ (r : Request),
                    r ∈ p.snd →
                      r.type = ReqType.kill →
                        ∀ (id : Nat),
                          List.head? r.members = some id →
                            ∀ (g : Group),
                              Loop.group? l' r.shardId = some g → ¬id ∈ List.map (fun x => x.fst) (Group.cur g).members :=
  @_root_.Drummer.member_never_killed

theorem loop_invariant_step :
    ∀ (size : Nat → Nat) (defIds : Nat → List Nat) (l l' : Loop),
      KInv size defIds l → KStep size defIds l l' → KInv size defIds l' :=
  @_root_.Drummer.kstep_inv

theorem loop_invariant_cold_start :
    ∀ (size : Nat → Nat) (defIds : Nat → List Nat) (l : Loop),
      l.groups = [] →
        (∀ (x : Host), x ∈ l.hosts → x.queue = [] ∧ x.running = [] ∧ x.data = []) →
          l.db.image.shards = [] → l.db.image.toKill = [] → l.db.requests = [] → l.db.outgoing = [] → KInv size defIds l :=
  @_root_.Drummer.kinv_cold

theorem loop_event_is_step :
    ∀ (size : Nat → Nat) (defIds : Nat → List Nat) (l l' : Loop),
      KStep size defIds l l' → Step size l l' ∨ l' = l :=
  @_root_.Drummer.kstep_step

theorem flagged_entry_names_removed_replica :
    ∀ (defIds : Nat → List Nat) (l : Loop),
      Loop.HistOK l →
        Loop.DefsKnown defIds l →
          ∀ (t : Nat) (mi mi' : MultiShard) (ci : ShardInfo),
            ImgOK l mi' →
              doUpdate1 t mi ci = Outcome.ok (mi', true) →
                Loop.Anch defIds l ci.shardId ci.replicaId → Loop.Removed l ci.shardId ci.replicaId :=
  @_root_.Drummer.flagged_removed

/-- non-vacuity: a cold start (four empty NodeHosts, an empty replicated state) satisfies the invariant, and the
    closed loop can move on from it (a crash and a restart are events) -/
example : KInv (fun _ => 3) (fun s => [100 * s + 1, 100 * s + 2, 100 * s + 3])
    { hosts := [{ addr := "h0" }, { addr := "h1" }, { addr := "h2" }, { addr := "h3" }] } := by
  apply @_root_.Drummer.kinv_cold <;> first | rfl | (intro x hx; simp at hx; rcases hx with rfl | rfl | rfl | rfl <;> exact ⟨rfl, rfl, rfl⟩)

example (l : Loop) : KSteps (fun _ => 3) (fun _ => []) l ((l.crash "h0").restart "h0") :=
  .tail _ _ _ (.tail _ _ _ (.refl l) (.crash l "h0")) (.restart _ "h0")

end C11
end Drummer
