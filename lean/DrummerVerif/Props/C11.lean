import DrummerVerif.Lemmas.C11
import DrummerVerif.Lemmas.C11S
import DrummerVerif.Lemmas.KStep
import DrummerVerif.Bridge.Bridge
import DrummerVerif.Lemmas.Quiet
import DrummerVerif.Lemmas.Cadence
import DrummerVerif.Lemmas.Renew
import DrummerVerif.Lemmas.Rounds
/-!
# C11 — only stray replicas are killed, and kill requests stop once they are gone

Property theorems only; every proof is a reference to a lemma in `Lemmas/`. The statement printed here is
the full statement (all quantifiers explicit).
-/
namespace Drummer
namespace C11

theorem kill_test_spec :
    ∀ (c : Shard) (ci : ShardInfo),
    Shard.killRequestRequired c ci = true → c.cci > ci.cci ∧ ∀ (r : Replica), r ∈ c.replicas → r.replicaId ≠ ci.replicaId :=
  @_root_.Drummer.killRequestRequired_spec

theorem kill_entry_justified :
    ∀ (t : Nat) (mc mc' : MultiShard) (ci : ShardInfo),
    doUpdate1 t mc ci = Outcome.ok (mc', true) →
    ∃ c,
    c ∈ mc'.shards ∧
    c.shardId = ci.shardId ∧ c.cci > ci.cci ∧ ∀ (r : Replica), r ∈ c.replicas → r.replicaId ≠ ci.replicaId :=
  @_root_.Drummer.doUpdate1_kill_justified

theorem kill_list_after_report :
    ∀ (mc mc' : MultiShard) (nhi : NodeHostInfo),
    MultiShard.update mc nhi = Outcome.ok mc' →
    ∀ (k : KillEntry),
    k ∈ mc'.toKill →
    k.address ≠ nhi.raftAddress ∧ k ∈ mc.toKill ∨
    k.address = nhi.raftAddress ∧ ∃ ci, ci ∈ nhi.shardInfo ∧ k.shardId = ci.shardId ∧ k.replicaId = ci.replicaId :=
  @_root_.Drummer.update_kill_list

theorem code_kill_guard :
    ∀ (c : Shard) (ci : ShardInfo), Gen.kill_version_guard c ci = decide (c.cci ≤ ci.cci) :=
  @_root_.Drummer.bridge_killGuard

theorem kill_requests_exactly_the_recorded_strays :
    ∀ (cx : Ctx) (draws rest : List Nat) (rs : List Request),
      (∀ (cr : ShardRepair), cr ∈ cx.repairs → ∀ (x : Replica), x ∈ cr.failed → x.shardId = cr.shard.shardId) →
        maintain cx draws = SRes.ok rs rest →
          (∀ (k : KillEntry), k ∈ cx.toKill → killReq k ∈ rs) ∧
            (∀ (r : Request), r ∈ rs → r.type = ReqType.kill → ∃ k, k ∈ cx.toKill ∧ r = killReq k) ∧
              List.filter (fun x => x.type == ReqType.kill) rs = List.map killReq cx.toKill :=
  @_root_.Drummer.maintain_kills_exact

theorem entry_flagged_iff_stray :
    ∀ (t : Nat) (mc mc' : MultiShard) (ci : ShardInfo) (k : Bool),
      doUpdate1 t mc ci = Outcome.ok (mc', k) →
        (k = true ↔
          ∃ ec,
            MultiShard.find? mc ci.shardId = some ec ∧
              ec.cci > ci.cci ∧
                (∀ (r : Replica), r ∈ ec.replicas → r.replicaId ≠ ci.replicaId) ∧
                  ((ci.pending || ci.incomplete) = true → List.length ec.replicas > 0 ∧ ec.cci > 0)) :=
  @_root_.Drummer.doUpdate1_flag_iff

theorem member_never_killed_in_every_reachable_state :
    ∀ (size : Nat → Nat) (defIds : Nat → List Nat) (l l' : Loop),
      KInv size defIds l →
        KSteps size defIds l l' →
          (∀ (k : KillEntry),
              k ∈ l'.db.image.toKill →
                ∀ (g : Group),
                  Loop.group? l' k.shardId = some g → ¬k.replicaId ∈ List.map (fun x => x.fst) (Group.cur g).members) ∧
            (∀ (x : Host),
                x ∈ l'.hosts →
                  ∀ (r : Request),
                    r ∈ x.queue →
                      r.type = ReqType.kill →
                        ∀ (id : Nat),
                          List.head? r.members = some id →
                            ∀ (g : Group),
                              Loop.group? l' r.shardId = some g → ¬id ∈ List.map (fun x => x.fst) (Group.cur g).members) ∧
              ∀ (p : Addr × List Request),
                p ∈ l'.db.requests ++ l'.db.outgoing →
                  ∀ (r : Request),
                    r ∈ p.snd →
                      r.type = ReqType.kill →
                        ∀ (id : Nat),
                          List.head? r.members = some id →
                            ∀ (g : Group),
                              Loop.group? l' r.shardId = some g → ¬id ∈ List.map (fun x => x.fst) (Group.cur g).members :=
  @_root_.Drummer.member_never_killed

theorem loop_invariant_step :
    ∀ (size : Nat → Nat) (defIds : Nat → List Nat) (l l' : Loop),
      KInv size defIds l → KStep size defIds l l' → KInv size defIds l' :=
  @_root_.Drummer.kstep_inv

theorem loop_invariant_cold_start :
    ∀ (size : Nat → Nat) (defIds : Nat → List Nat) (l : Loop),
      l.groups = [] →
        (∀ (x : Host), x ∈ l.hosts → x.queue = [] ∧ x.running = [] ∧ x.data = []) →
          l.db.image.shards = [] → l.db.image.toKill = [] → l.db.requests = [] → l.db.outgoing = [] → KInv size defIds l :=
  @_root_.Drummer.kinv_cold

theorem loop_event_is_step :
    ∀ (size : Nat → Nat) (defIds : Nat → List Nat) (l l' : Loop),
      KStep size defIds l l' → Step size l l' ∨ l' = l :=
  @_root_.Drummer.kstep_step

theorem flagged_entry_names_removed_replica :
    ∀ (defIds : Nat → List Nat) (l : Loop),
      Loop.HistOK l →
        Loop.DefsKnown defIds l →
          ∀ (t : Nat) (mi mi' : MultiShard) (ci : ShardInfo),
            ImgOK l mi' →
              doUpdate1 t mi ci = Outcome.ok (mi', true) →
                Loop.Anch defIds l ci.shardId ci.replicaId → Loop.Removed l ci.shardId ci.replicaId :=
  @_root_.Drummer.flagged_removed

/-- non-vacuity: a cold start (four empty NodeHosts, an empty replicated state) satisfies the invariant, and the
    closed loop can move on from it (a crash and a restart are events) -/
example : KInv (fun _ => 3) (fun s => [100 * s + 1, 100 * s + 2, 100 * s + 3])
    { hosts := [{ addr := "h0" }, { addr := "h1" }, { addr := "h2" }, { addr := "h3" }] } := by
  apply @_root_.Drummer.kinv_cold <;> first | rfl | (intro x hx; simp at hx; rcases hx with rfl | rfl | rfl | rfl <;> exact ⟨rfl, rfl, rfl⟩)

example (l : Loop) : KSteps (fun _ => 3) (fun _ => []) l ((l.crash "h0").restart "h0") :=
  .tail _ _ _ (.tail _ _ _ (.refl l) (.crash l "h0")) (.restart _ "h0")

/-! ### quiescence: a healed fleet stays healed and receives no request at all

`Loop.Settled`: every view at its group's newest membership version, every running replica caught up with its group (and
its shard has a view), nothing queued at a NodeHost, nothing scheduled, no stray recorded. `Loop.AllRunning`: every member
of every group's newest membership runs on the NodeHost the membership names, and that NodeHost is up. `QuietStep`: a
tick, a report of any NodeHost (reply lost or not), an execution, a log catch-up, or a scheduling round (any draws, any map orders) taken
at a moment when every member is classified healthy. `SameFleet`: same groups, and every address resolves to a NodeHost
with the same replicas, data and power state. -/

/-- a scheduling round over healthy views with no recorded stray issues nothing, consumes no draw, cannot fail -/
theorem healthy_round_is_empty :
    ∀ (d : DB) (cx : Ctx) (draws : List Nat), CtxExact d cx → DB.AllHealthy d → d.image.toKill = [] →
      maintain cx draws = SRes.ok [] draws :=
  @_root_.Drummer.healthy_round_is_empty

/-- the timing condition: every member record has a positive report time at most the failure timeout old -/
theorem recently_reported_is_healthy :
    ∀ (d : DB), d.tick < 18446744073709551616 →
      (∀ c ∈ d.image.shards, ∀ r ∈ c.replicas, 0 < r.tick ∧ r.tick ≤ d.tick ∧ d.tick - r.tick ≤ nodeHostTTL) →
        DB.AllHealthy d :=
  @_root_.Drummer.recently_reported_is_healthy

/-- in a settled state a NodeHost's report tells Drummer nothing new, is answered with no request, and changes neither the
views' versions nor the fleet -/
theorem report_keeps_a_settled_fleet_settled :
    ∀ (l l' : Loop) (a : Addr) (lost : Bool) (n : Nat), Loop.Settled l → Loop.report l a lost = Outcome.ok (l', n) →
      Loop.Settled l' ∧ n = 0 ∧ SameFleet l l' :=
  @_root_.Drummer.report_settled

/-- **a healed fleet stays healed and receives nothing**: from a settled state in which every member is running, along
ANY sequence of fault-free events, every member keeps running where it was, no request is ever queued at a NodeHost,
nothing is scheduled and no stray is recorded (witness: `Props/WitnessQuiet`) -/
theorem healed_fleet_stays_healed :
    ∀ (l l' : Loop), Loop.Settled l → Loop.AllRunning l → QuietSteps l l' →
      Loop.Settled l' ∧ Loop.AllRunning l' ∧ SameFleet l l' :=
  @_root_.Drummer.healed_fleet_stays_healed

/-- **the quiet window** - the timing premise discharged for bounded windows: `DB.Fresh d s` says every member record
carries a positive report time at most `s` old; `WindowStep` is a fault-free event (tick, report, execution, catch-up,
scheduling round with NO premise) indexed by the number of ticks it contains. From a settled state that is `Fresh s`, any
sequence of such events containing `k` ticks with `s + k * tickInterval ≤ nodeHostTTL` is a quiet run: every round finds
every member healthy and issues nothing, the fleet stays settled. (Reports renew the window: a report stamps the members
its NodeHost runs with the current time, `running_member_is_recorded_as_reported_now`.) -/
theorem quiet_window :
    ∀ (l l' : Loop) (k s : Nat), Loop.Settled l → 0 < l.db.tick → DB.Fresh l.db s →
      s + k * tickInterval ≤ nodeHostTTL → l.db.tick + k * tickInterval < 18446744073709551616 →
        WindowSteps l l' k →
          QuietSteps l l' ∧ Loop.Settled l' ∧ DB.Fresh l'.db (s + k * tickInterval) ∧ 0 < l'.db.tick ∧
            l'.db.tick ≤ l.db.tick + k * tickInterval :=
  @_root_.Drummer.quiet_window

/-! ### reports renew the window

`Loop.ViewsHosted`: every member record of every view is run by the NodeHost its address names. `DB.Since d t0 A`: every
record whose address is in `A` has a report time of at least `t0`. -/

/-- a report of NodeHost `a` on a settled, hosted fleet stamps every record named `a` with the current time and leaves the
others alone -/
theorem report_renews_the_records_of_its_host :
    ∀ (l l' : Loop) (a : Addr) (lost : Bool) (n t0 : Nat) (A : List Addr),
      Loop.Settled l → UniqueShards l.db.image → Loop.ViewsHosted l → t0 ≤ l.db.tick → DB.Since l.db t0 A →
        Loop.report l a lost = Outcome.ok (l', n) →
          DB.Since l'.db t0 (a :: A) ∧ Loop.ViewsHosted l' ∧ UniqueShards l'.db.image :=
  @_root_.Drummer.report_since

/-- once every NodeHost that a record names has reported since `t0`, every record is at most `now - t0` old: the next
quiet window starts from there -/
theorem records_are_fresh_once_every_host_has_reported :
    ∀ (d : DB) (t0 : Nat) (A : List Addr), 0 < t0 → DB.Since d t0 A →
      (∀ c ∈ d.image.shards, ∀ r ∈ c.replicas, r.address ∈ A) →
        (∀ c ∈ d.image.shards, ∀ r ∈ c.replicas, r.tick ≤ d.tick) → DB.Fresh d (d.tick - t0) :=
  @_root_.Drummer.since_all_fresh

/-- one sweep - a window of `k` ticks with arbitrary fault-free events in which every NodeHost named by a record reports at
least once - keeps a settled, hosted fleet settled and brings every record to at most `k` ticks of age, whatever age
(within the window) it started with -/
theorem sweep_renews :
    ∀ (l l' : Loop) (k s : Nat) (A : List Addr), Loop.Settled l → 0 < l.db.tick → DB.Fresh l.db s →
      UniqueShards l.db.image → Loop.ViewsHosted l → s + k * tickInterval ≤ nodeHostTTL →
        l.db.tick + k * tickInterval < 18446744073709551616 → SweepSteps l l' k A →
          (∀ c ∈ l'.db.image.shards, ∀ r ∈ c.replicas, r.address ∈ A) →
            QuietSteps l l' ∧ Loop.Settled l' ∧ Loop.ViewsHosted l' ∧ UniqueShards l'.db.image ∧ 0 < l'.db.tick ∧
              DB.Fresh l'.db (k * tickInterval) :=
  @_root_.Drummer.sweep_renews

/-- **a healed fleet stays healed for ever under the reporting cadence**: no premise about scheduling moments any more. If
two sweeps fit into the failure timeout, a settled, hosted fleet in which every member is running and whose records are at
most one sweep old goes through ANY number of sweeps and stays settled, every member running, with no request issued -/
theorem healed_for_ever_under_cadence :
    ∀ (k : Nat) (l l' : Loop), Loop.Settled l → Loop.AllRunning l → 0 < l.db.tick →
      DB.Fresh l.db (k * tickInterval) → UniqueShards l.db.image → Loop.ViewsHosted l →
        2 * (k * tickInterval) ≤ nodeHostTTL → Sweeps k l l' →
          QuietSteps l l' ∧ Loop.Settled l' ∧ Loop.AllRunning l' ∧ Loop.ViewsHosted l' ∧ UniqueShards l'.db.image ∧
            0 < l'.db.tick ∧ DB.Fresh l'.db (k * tickInterval) :=
  @_root_.Drummer.healed_for_ever_under_cadence

end C11
end Drummer
