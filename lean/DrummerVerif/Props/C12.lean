import DrummerVerif.Lemmas.C12
import DrummerVerif.Lemmas.C12W
import DrummerVerif.Lemmas.C01
import DrummerVerif.Bridge.Bridge
/-!
# C12 — restore is requested only where it can work, and never mixed with repair

Property theorems only; every proof is a reference to a lemma in `Lemmas/`. The statement printed here is
the full statement (all quantifiers explicit).
-/
namespace Drummer
namespace C12

theorem restore_justified :
    ∀ (cx : Ctx) (rs : List Request), restore cx = Outcome.ok rs → ∀ (r : Request), r ∈ rs → RestoreJust cx r :=
  @_root_.Drummer.restore_just

theorem restorable_spec :
    ∀ (cx : Ctx) (cr : ShardRepair) (n : Replica),
    n ∈ restorable cx cr →
    n ∈ cr.failed ∧
    ∃ host,
    hostFind? cx.allHosts n.address = some host ∧
    HostSpec.available host cx.tick = true ∧ HostSpec.hasLog host n.shardId n.replicaId = true :=
  @_root_.Drummer.restorable_spec

theorem restore_requests_shape :
    ∀ (cx : Ctx) (cr : ShardRepair) (nl : List Replica) (rs : List Request),
    restoreReqs cx cr nl = Outcome.ok rs →
    ∀ (r : Request),
    r ∈ rs → ∃ n, n ∈ nl ∧ ∃ d, Ctx.def? cx cr.shard.shardId = some d ∧ r = createReq n cr.shard d.appName false true :=
  @_root_.Drummer.restoreReqs_spec

theorem restore_complete :
    ∀ (cx : Ctx) (rs : List Request),
    restore cx = Outcome.ok rs →
    ∀ (cr : ShardRepair),
    cr ∈ cx.repairs →
    ShardRepair.restoreNow cx cr = true ∨
    ShardRepair.needToBeRestored cr = false ∧ List.contains (doneShards cx) cr.shard.shardId = false →
    ∀ (n : Replica),
    n ∈ restorable cx cr →
    ∀ (d : ShardDef), Ctx.def? cx cr.shard.shardId = some d → createReq n cr.shard d.appName false true ∈ rs :=
  @_root_.Drummer.restore_complete

theorem repair_skips_restored :
    ∀ (cx : Ctx) (restored : List Nat) (l : List ShardRepair) (draws : List Nat) (rs : List Request)
    (rest : List Nat),
    (∀ (cr : ShardRepair), cr ∈ l → ∀ (x : Replica), x ∈ cr.failed → x.shardId = cr.shard.shardId) →
    repair cx restored l draws = SRes.ok rs rest →
    (∀ (r : Request), r ∈ rs → ¬r.shardId ∈ restored ∧ ∃ cr, cr ∈ l ∧ RepairJust cx cr r) ∧
    List.length rs ≤ List.length l :=
  @_root_.Drummer.repair_spec

theorem restore_below_quorum_witness :
    (∃ rs,
    restore w_cx = Outcome.ok rs ∧
    List.length rs = 1 ∧ ∀ (r : Request), r ∈ rs → r.instantiateReplicaId = 2 ∧ r.restore = true) ∧
    ∀ (cr : ShardRepair),
    cr ∈ w_cx.repairs → ShardRepair.quorum cr = 3 ∧ List.length cr.ok + List.length (restorable w_cx cr) = 2 :=
  @_root_.Drummer.restore_below_quorum

theorem code_needToBeRestored :
    ∀ (cr : ShardRepair), Gen.repair_needToBeRestored cr = ShardRepair.needToBeRestored cr :=
  @_root_.Drummer.bridge_needToBeRestored

theorem code_host_available :
    ∀ (h : HostSpec) (t : Nat), Gen.host_available h t = HostSpec.available h t :=
  @_root_.Drummer.bridge_hostAvailable

end C12
end Drummer
