import DrummerVerif.Lemmas.C13
import DrummerVerif.Lemmas.C13H
import DrummerVerif.Lemmas.C13B
import DrummerVerif.Lemmas.C13R
/-!
# C13 — finalized keys are write-once; non-finalized keys are CAS; the bootstrap gate holds

Property theorems only (helper lemmas live in `Lemmas/`). Model: `Model/Db.lean`
(`DB.applyKV` = db.go `applyKVUpdate`, `DB.applyShard` = `tryCreateShard`, `DB.apply` = `Update`).
All statements quantify over every state, record and command history (no bounds).
-/
namespace Drummer.C13

/-- **KV write law** (one write, any state): afterwards every key `k` holds
* for `k ≠` the written key: what it held before;
* for the written key: the new record if the key was absent; the *old* record if that was finalized;
  the new record if the old one was not finalized and the writer presents the holder's instance id as
  its own or as the one it replaces; the old record otherwise. -/
theorem kv_write_law (d d' : DB) (kv : KVRec) (n : Nat) (h : d.applyKV kv = .ok (d', n)) (k : Bytes) :
    kvGet d'.kv k =
      if k = kv.key then
        match kvGet d.kv kv.key with
        | none => some kv
        | some old => if old.finalized then some old
                      else if old.instanceId = kv.instanceId ∨ old.instanceId = kv.oldInstanceId then some kv
                      else some old
      else kvGet d.kv k :=
  applyKV_get d d' kv n h k

/-- the three result codes are pairwise distinct (values regenerated from the Go constants) -/
theorem kv_codes_distinct : DBKVUpdated ≠ DBKVFinalized ∧ DBKVUpdated ≠ DBKVRejected ∧ DBKVFinalized ≠ DBKVRejected := by decide
theorem def_codes_distinct : Gen.DBUpdated ≠ Gen.ShardExists ∧ Gen.DBUpdated ≠ Gen.DBBootstrapped ∧ Gen.ShardExists ≠ Gen.DBBootstrapped := by decide

/-- result codes of a KV write (`Updated`, `Finalized`, `Rejected`), decided exactly as the law says -/
theorem kv_write_code (d d' : DB) (kv : KVRec) (n : Nat) (h : d.applyKV kv = .ok (d', n)) :
    n = match kvGet d.kv kv.key with
        | none => DBKVUpdated
        | some old => if old.finalized then DBKVFinalized
                      else if old.instanceId = kv.instanceId ∨ old.instanceId = kv.oldInstanceId then DBKVUpdated
                      else DBKVRejected := by
  unfold DB.applyKV at h
  split at h
  · cases h
  · split at h
    · rename_i hn; simp only [Outcome.ok.injEq, Prod.mk.injEq] at h; simp [hn, ← h.2]
    · rename_i old hs
      split at h
      · rename_i hf; simp only [Outcome.ok.injEq, Prod.mk.injEq] at h; simp [hs, hf, ← h.2]
      · rename_i hf
        split at h
        · rename_i hc
          simp only [Bool.or_eq_true, beq_iff_eq] at hc
          simp only [Outcome.ok.injEq, Prod.mk.injEq] at h; simp [hs, hf, hc, ← h.2]
        · rename_i hc
          simp only [Bool.or_eq_true, beq_iff_eq] at hc
          simp only [Outcome.ok.injEq, Prod.mk.injEq] at h; simp [hs, hf, hc, ← h.2]

/-- a write with an empty key or value is refused by a fail-stop (the Go `panic`), never stored -/
theorem kv_empty_refused (d : DB) (kv : KVRec) (h : kv.key = [] ∨ kv.value = []) :
    ∃ w, d.applyKV kv = .panic w := by
  unfold DB.applyKV
  rcases h with h | h <;> simp [h]

/-- **finalized keys are write-once over histories**: whatever commands follow (KV writes, definitions,
ticks, reports, request batches — any number, any order), a finalized record is still there, unchanged. -/
theorem finalized_immutable (cs : List Cmd) (d d' : DB) (h : runCmds d cs = .ok d')
    (k : Bytes) (r : KVRec) (hr : kvGet d.kv k = some r) (hf : r.finalized = true) :
    kvGet d'.kv k = some r :=
  Drummer.finalized_immutable cs d d' h k r hr hf

/-- **definition gate, one submission**: well-formed submission ⇒ result `Bootstrapped` and no change once bootstrapped,
result `Exists` and no change if the id is already defined, else result `Updated` and the definition is added in front. -/
theorem definition_gate (d d' : DB) (c : ShardDef) (n : Nat) (h : d.applyShard c = .ok (d', n)) :
    (d.bootstrapped = true → d' = d ∧ n = Gen.DBBootstrapped) ∧
    (d.bootstrapped = false → d.shards.any (·.shardId == c.shardId) = true → d' = d ∧ n = Gen.ShardExists) ∧
    (d.bootstrapped = false → d.shards.any (·.shardId == c.shardId) = false →
        d' = { d with shards := c :: d.shards } ∧ n = Gen.DBUpdated) := by
  unfold DB.applyShard at h
  split at h
  · cases h
  · split at h
    · cases h
    · split at h
      · rename_i hb; simp only [Outcome.ok.injEq, Prod.mk.injEq] at h; simp [hb, ← h.1, ← h.2]
      · rename_i hb
        split at h
        · rename_i he; simp only [Outcome.ok.injEq, Prod.mk.injEq] at h
          simp only [Bool.not_eq_true] at hb
          simp [hb, he, ← h.1, ← h.2]
        · rename_i he; simp only [Outcome.ok.injEq, Prod.mk.injEq] at h
          simp only [Bool.not_eq_true] at hb he
          simp [hb, he, ← h.1, ← h.2]

/-- a definition without members or without an application name fail-stops the replica (F-C17 is about the
service not filtering these) -/
theorem definition_malformed_refused (d : DB) (c : ShardDef) (h : c.members = [] ∨ c.appName = "") :
    ∃ w, d.applyShard c = .panic w := by
  unfold DB.applyShard
  rcases h with h | h
  · simp [h]
  · by_cases hm : c.members.isEmpty = true
    · simp [hm]
    · simp [hm, h]

/-- **bootstrap gate over histories**: along any command history existing definitions are never removed or
altered, and once the bootstrapped flag is set the set of definitions is frozen and the flag stays set. -/
theorem defs_history (cs : List Cmd) (d d' : DB) (h : runCmds d cs = .ok d') :
    (∀ x ∈ d.shards, x ∈ d'.shards) ∧
    (d.bootstrapped = true → d'.shards = d.shards ∧ d'.bootstrapped = true) :=
  Drummer.defs_history cs d d' h


/-! ## the KV map over histories: every key is one compare-and-swap register

`casStep` is the whole specification of a key (free: any write lands; finalized: nothing lands; otherwise a write
lands iff it presents the holder's instance id as its own or as the one it replaces). `specStep` lifts it to the
commands of the DB: a KV command writes its record, the first accepted launch batch writes the launched flag, nothing
else writes. -/

/-- **refinement over histories**: after any command history (KV writes, definitions, ticks, reports, request batches -
any number, any order) the value of every key equals the value the register specification computes from the same
history. -/
theorem kv_map_is_a_cas_register_per_key (cs : List Cmd) (d d' : DB) (h : runCmds d cs = .ok d') (k : Bytes) :
    kvGet d'.kv k = cs.foldl specStep (fun k => kvGet d.kv k) k :=
  Drummer.kv_history_refines cs d d' h k

/-- the value of key `k` after a history is the fold of `casStep` over the records written *to that key* -/
theorem key_value_is_cas_fold_of_its_writes (cs : List Cmd) (d d' : DB) (h : runCmds d cs = .ok d') (k : Bytes) :
    kvGet d'.kv k = (specWrites k (fun k => kvGet d.kv k) cs).foldl casStep (kvGet d.kv k) := by
  have := Drummer.kv_history_refines cs d d' h k
  rw [specFold_key] at this
  exact this

/-- **a key changes only by a successful compare-and-swap**: if any command changes the record under `k`, that command
wrote a record `w` to exactly `k`, `w` is what the key holds now, and the key was free or held a non-finalized record
whose instance id `w` presents as its own or as the one it replaces. -/
theorem key_changes_only_by_cas (d d' : DB) (c : Cmd) (n : Nat) (h : d.apply c = .ok (d', n)) (k : Bytes)
    (hne : kvGet d'.kv k ≠ kvGet d.kv k) :
    ∃ w, specWrite (fun k => kvGet d.kv k) c = some w ∧ w.key = k ∧ kvGet d'.kv k = some w ∧
      (kvGet d.kv k = none ∨ ∃ old, kvGet d.kv k = some old ∧ old.finalized = false ∧
        (old.instanceId = w.instanceId ∨ old.instanceId = w.oldInstanceId)) :=
  Drummer.apply_changes_only_by_cas d d' c n h k hne

/-- **first writer wins** (bootstrapped flag, launched flag, regions, deployment id - all written finalized by
server.go / db.go): a key that is free and only ever written finalized along a history holds the first record written to
it at the end, whatever else was applied. -/
theorem first_writer_wins (cs : List Cmd) (d d' : DB) (h : runCmds d cs = .ok d') (k : Bytes)
    (hfree : kvGet d.kv k = none)
    (hall : ∀ w ∈ specWrites k (fun k => kvGet d.kv k) cs, w.finalized = true) :
    kvGet d'.kv k = (specWrites k (fun k => kvGet d.kv k) cs).head? :=
  Drummer.first_writer_wins cs d d' h k hfree hall

/-- the record db.go writes for the launched flag is finalized, so the launched flag is first-writer-wins too -/
theorem launched_record_is_finalized : launchedRec.finalized = true ∧ launchedRec.key = launchedKey := ⟨rfl, rfl⟩

/-! ## non-vacuity: the hypotheses are met by concrete non-trivial states -/
def k1 : Bytes := [107, 49]
def recA : KVRec := { key := k1, value := [118], instanceId := 1 }
def recFin : KVRec := { key := k1, value := [119], instanceId := 2, oldInstanceId := 1, finalized := true }
def recLate : KVRec := { key := k1, value := [120], instanceId := 2 }

/-- a holder write replaces (code 0), a finalizing write by the successor sticks (0), a later write by the same
holder is refused with code 1 and the finalized record is still there after a tick -/
def demo : Outcome (Nat × Nat × Nat × DB) := do
  let (d1, a) ← ({} : DB).applyKV recA
  let (d2, b) ← d1.applyKV recFin
  let (d3, _) ← d2.apply .tick
  let (d4, c) ← d3.applyKV recLate
  pure (a, b, c, d4)

example : (match demo with
    | .ok (a, b, c, d) => a = 0 ∧ b = 0 ∧ c = 1 ∧ kvGet d.kv k1 = some recFin ∧
        runCmds ({} : DB) [.kv recA, .kv recFin, .tick, .kv recLate] = .ok d
    | .panic _ => False) := by
  simp [demo, bind, DB.applyKV, DB.apply, DB.applyTick, kvGet, kvPut, recA, recFin, recLate, k1, runCmds,
    DBKVUpdated, DBKVFinalized, tickInterval, pure, Gen.DBKVUpdated, Gen.DBKVFinalized, Gen.tickIntervalSecond]

/-- non-vacuity of the history theorems: two campaigns against holder 1 (instance ids 2 and 3, both naming 1 as the
one they replace) - only the first lands; the specification computes the same and sees both writes -/
def recB : KVRec := { key := k1, value := [121], instanceId := 2, oldInstanceId := 1 }
def recC : KVRec := { key := k1, value := [122], instanceId := 3, oldInstanceId := 1 }
example : specWrites k1 (fun _ => none) [.kv recA, .tick, .kv recB, .kv recC] = [recA, recB, recC] ∧
    [recA, recB, recC].foldl casStep none = some recB := by
  refine ⟨?_, ?_⟩
  · simp [specWrites, specWrite, specStep, recA, recB, recC, k1]
  · simp [casStep, recA, recB, recC]

end Drummer.C13
