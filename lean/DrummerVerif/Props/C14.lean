import DrummerVerif.Lemmas.C14N
import DrummerVerif.Lemmas.C14G
import DrummerVerif.Lemmas.C14F
import DrummerVerif.Lemmas.C14O
/-!
# C14 — Drummer leadership: holder-only, stable under renewal, bounded takeover

Property theorems only; every proof is a reference to a lemma in `Lemmas/`. The statement printed here is
the full statement (all quantifiers explicit).
-/
namespace Elect
namespace C14

theorem leader_only_after_own_id :
    ∀ (s0 s' : Srv) (r r' : Rec) (cancel : Bool),
    turn s0 r cancel = some (s', r') →
    s0.leader = false → s'.leader = true → cancel = false ∧ (recInst r = s0.id ∨ recInst r' = s0.id) :=
  @_root_.Elect.leader_only_after_own_id

theorem step_down :
    ∀ (s0 s' : Srv) (r r' : Rec) (cancel : Bool),
    turn s0 r cancel = some (s', r') → s0.leader = true → cancel = true ∨ recInst r ≠ s0.id → s'.leader = false :=
  @_root_.Elect.step_down

theorem cas_exclusive :
    ∀ (r : Rec) (holder a b ta tb : Nat),
    recInst r = holder →
    r ≠ none →
    a ≠ b → a ≠ holder → (write r a holder ta).snd = true → (write (write r a holder ta).fst b holder tb).snd = false :=
  @_root_.Elect.cas_exclusive

theorem record_never_vanishes :
    ∀ (r : Rec) (a old t : Nat), r ≠ none → (write r a old t).fst ≠ none :=
  @_root_.Elect.write_holder

theorem stable_under_renewal_round :
    ∀ (L t : Nat) (f : Srv) (before : Bool),
    Calm L t f → ∃ f', round L t f before = some (f', renew L t) ∧ Calm L (t + 1) f' :=
  @_root_.Elect.round_calm

theorem watching_follower_stays_calm :
    ∀ (L t : Nat) (f : Srv),
    Calm L t f →
    ∃ f',
    turn f (some (L, t)) false = some (f', some (L, t)) ∧
    f'.leader = false ∧
    f'.id = f.id ∧
    ∃ c,
    f'.cur = some c ∧
    c.inst = L ∧
    c.tick = t ∧ c.static ≤ 1 ∧ (c.static = 1 → ∃ c0, f.cur = some c0 ∧ c0.inst = L ∧ c0.tick = t) :=
  @_root_.Elect.observe_calm

theorem solo_takeover :
    ∀ (L t : Nat) (f : Srv),
    Calm L t f →
    ∃ n f' tk, n ≤ 5 ∧ 4 ≤ n ∧ turns n f (some (L, t)) = some (f', some (f.id, tk)) ∧ f'.leader = true ∧ f'.id = f.id :=
  @_root_.Elect.solo_takeover

theorem loser_follows :
    ∀ (W tw : Nat) (g : Srv),
    g.leader = false →
    W ≠ 0 →
    W ≠ g.id →
    (∀ (c : Cur), g.cur = some c → c.inst ≠ W) →
    ∃ g', turn g (some (W, tw)) false = some (g', some (W, tw)) ∧ Calm W tw g' ∧ g'.id = g.id :=
  @_root_.Elect.loser_follows

theorem takeover_rounds_any_order :
    ∀ (L t : Nat) (σ : Nat → List Srv → List Srv),
    (∀ (i : Nat) (l : List Srv), List.Perm (σ i l) l) →
    ∀ (j lo i : Nat) (fs : List Srv),
    lo + j = deadLeaderMinRound →
    fs ≠ [] →
    List.Nodup (List.map (fun x => x.id) fs) →
    (∀ (f : Srv), f ∈ fs → f.id ≠ 0) →
    (∀ (f : Srv), f ∈ fs → ∃ k, Watching L t k f ∧ lo ≤ k ∧ k ≤ deadLeaderMinRound) →
    ∃ n out r, 1 ≤ n ∧ n ≤ j + 1 ∧ roundsP σ i n fs (some (L, t)) = some (out, r) ∧ Won out r :=
  @_root_.Elect.takeover_roundsP

theorem bounded_takeover :
    ∀ (L t : Nat) (fs : List Srv),
    fs ≠ [] →
    List.Nodup (List.map (fun x => x.id) fs) →
    (∀ (f : Srv), f ∈ fs → f.id ≠ 0) →
    (∀ (f : Srv), f ∈ fs → Calm L t f) →
    ∃ n out r, 2 ≤ n ∧ n ≤ 5 ∧ rounds n fs (some (L, t)) = some (out, r) ∧ Won out r :=
  @_root_.Elect.bounded_takeover

theorem turn_never_panics_locally :
    ∀ (s : Srv) (r : Rec) (cancel : Bool),
    (∀ (c : Cur), s.cur = some c → c.inst = recInst r → c.tick ≤ recTick r) → ∃ p, turn s r cancel = some p :=
  @_root_.Elect.turn_no_panic

theorem reachable_invariant :
    ∀ (ss : List Srv) (r : Rec), GReach ss r → GInv ss r :=
  @_root_.Elect.greach_inv

theorem no_unknown_state_panic :
    ∀ (ss : List Srv) (r : Rec),
    GReach ss r → ∀ (s : Srv), s ∈ ss → ∀ (cancel : Bool), ∃ p, turn s r cancel = some p :=
  @_root_.Elect.no_unknown_state_panic

theorem partial_failure_turn_refines_turn :
    ∀ (s : SrvF) (r : Rec), Option.map (fun p => (p.fst.base, p.snd)) (turnF s r 0) = turn s.base r false :=
  @_root_.Elect.turnF_no_failure

theorem whole_failure_turn_is_failed_turn :
    ∀ (s : SrvF) (r : Rec),
      Option.map (fun p => (p.fst.base, p.snd)) (turnF s r 1) = turn s.base r true :=
  @_root_.Elect.turnF_whole_failure

theorem leader_only_after_own_id_with_failures :
    ∀ (s s' : SrvF) (r r' : Rec) (fa : Nat),
      turnF s r fa = some (s', r') →
        s.base.leader = false →
          s'.base.leader = true → fails fa 1 = false ∧ (recInst r = s.base.id ∨ recInst r' = s.base.id) :=
  @_root_.Elect.turnF_leader_only_after_own_id

theorem step_down_with_failures :
    ∀ (s s' : SrvF) (r r' : Rec) (fa : Nat),
      turnF s r fa = some (s', r') →
        s.base.leader = true → fails fa 1 = true ∨ recInst r ≠ s.base.id → s'.base.leader = false :=
  @_root_.Elect.turnF_step_down

theorem record_changes_only_by_own_cas :
    ∀ (s s' : SrvF) (r r' : Rec) (fa : Nat),
      turnF s r fa = some (s', r') → r' = r ∨ ∃ old t, r' = (write r s.base.id old t).fst :=
  @_root_.Elect.turnF_record

theorem partial_failure_turn_panics_iff :
    ∀ (s : SrvF) (r : Rec) (fa : Nat),
      fails fa 1 = false → (turnF s r fa = none ↔ turn s.base r false = none) :=
  @_root_.Elect.turnF_panics_iff

/-! ### single DB operations, any interleaving (`Model/ElectO`): every operation of a turn acts on the record as it is
    at that moment, other servers' operations may come in between; the turn of the theorems above is the special case
    with nothing in between (last theorem) -/

theorem leader_only_after_own_id_at_every_operation :
    ∀ (s s' : SrvO) (r r' : Rec) (fail : Bool),
      SrvO.WF s →
        micro s r fail = some (s', r') →
          s'.base.leader = true →
            fail = false ∧ recInst r' = s.base.id ∨ s.pend = Pend.renewL ∧ s.sess = false ∧ s.base.leader = true ∧ r' = r :=
  @_root_.Elect.micro_leader_only_after_own_id

theorem leader_steps_down_at_its_next_read :
    ∀ (s s' : SrvO) (r r' : Rec) (fail : Bool),
      s.pend = Pend.idle →
        s.base.leader = true →
          fail = true ∨ recInst r ≠ s.base.id →
            micro s r fail = some (s', r') → s'.base.leader = false ∧ s'.pend = Pend.idle ∧ r' = r :=
  @_root_.Elect.micro_step_down

theorem refused_renewal_ends_in_a_follower :
    ∀ (s s' : SrvO) (r r' : Rec),
      s.pend = Pend.renewL ∨ s.pend = Pend.renewR →
        s.sess = true →
          (write r s.base.id 0 s.base.tick).snd = false →
            micro s r false = some (s', r') → s'.base.leader = false ∧ s'.pend = Pend.idle ∧ r' = r :=
  @_root_.Elect.micro_refused_renewal

theorem operations_keep_servers_well_formed :
    ∀ (s s' : SrvO) (r r' : Rec) (fail : Bool), SrvO.WF s → micro s r fail = some (s', r') → SrvO.WF s' :=
  @_root_.Elect.micro_wf

theorem system_stays_well_formed :
    ∀ (y y' : Sys) (i : Nat) (fail : Bool), Sys.WF y → sysStep y i fail = some y' → Sys.WF y' :=
  @_root_.Elect.sysStep_wf

theorem leader_only_after_own_id_in_every_interleaving :
    ∀ (y y' : Sys) (i : Nat) (fail : Bool),
      Sys.WF y →
        sysStep y i fail = some y' →
          ∀ (s s' : SrvO),
            y.srv[i]? = some s →
              y'.srv[i]? = some s' →
                s'.base.leader = true →
                  (fail = false ∧ recInst y'.record = s.base.id ∨
                      s.pend = Pend.renewL ∧ s.sess = false ∧ s.base.leader = true ∧ y'.record = y.record) ∧
                    ∀ (j : Nat), j ≠ i → y'.srv[j]? = y.srv[j]? :=
  @_root_.Elect.sys_leader_only_after_own_id

theorem turn_is_its_operations_back_to_back :
    ∀ (s : SrvO) (r : Rec) (fa : Nat),
      s.pend = Pend.idle → runTurn s r fa = Option.map (fun p => (ofF p.fst, p.snd)) (turnF (toF s) r fa) :=
  @_root_.Elect.runTurn_eq_turnF


/-- the hypotheses of `refused_renewal_ends_in_a_follower` are met by a concrete state: server 2 resumes (it found its
    own id in the record before), meanwhile the record has come to name server 1, the renewal is refused -/
example :
    let s : SrvO := { base := { id := 2, tick := 9 }, sess := true, pend := .renewR }
    (s.pend = .renewL ∨ s.pend = .renewR) ∧ s.sess = true ∧ (write (some (1, 5)) s.base.id 0 s.base.tick).2 = false ∧
      (micro s (some (1, 5)) false).map (fun p => (p.1.base.leader, p.1.pend, p.2)) = some (false, .idle, some (1, 5)) := by
  decide

end C14
end Elect
