import DrummerVerif.Lemmas.Kvsm
/-!
# C15 — the three test state machines are the same deterministic key-value map

Property theorems only; every proof is a reference to a lemma in `Lemmas/`. The statement printed here is
the full statement (all quantifiers explicit).
-/
namespace Kvsm
namespace C15

theorem update_stores_exactly_the_pair :
    ∀ (s : SM) (pooled : Bool) (kv : Codec.KV),
    List.length (Codec.marshal kv) < Codec.sizeMax →
    ∃ s',
    update s pooled (Codec.marshal kv) = Out.ok s' (List.length (Codec.marshal kv)) ∧
    s'.store = put s.store kv.key kv.val :=
  @_root_.Kvsm.update_stores

theorem lookup_is_last_write_mem :
    ∀ (cmds : List (Codec.KV × Bool)) (s : SM),
    (∀ (c : Codec.KV × Bool), c ∈ cmds → List.length (Codec.marshal c.fst) < Codec.sizeMax) →
    ∃ s',
    runCmds s cmds = some s' ∧
    ∀ (k : Codec.Bytes),
    get s'.store k = Option.orElse (lastWrite k (List.map (fun x => x.fst) cmds)) fun x => get s.store k :=
  @_root_.Kvsm.lookup_is_last_write

theorem batch_lookup_is_last_write :
    ∀ (ents : List (Nat × Codec.KV × Bool)) (s : SM),
    (∀ (e : Nat × Codec.KV × Bool), e ∈ ents → List.length (Codec.marshal e.snd.fst) < Codec.sizeMax) →
    (s.kind = Kind.disk → ∃ last, List.getLast? (List.map (fun x => x.fst) ents) = some last ∧ s.applied < last) →
    ∃ s',
    updateBatch s (List.map (fun e => (e.fst, Codec.marshal e.snd.fst, e.snd.snd)) ents) = some s' ∧
    s'.kind = s.kind ∧
    ∀ (k : Codec.Bytes),
    lookup s' k =
    Option.getD (Option.orElse (lastWrite k (List.map (fun x => x.snd.fst) ents)) fun x => get s.store k) [] :=
  @_root_.Kvsm.updateBatch_lookup

theorem entries_lookup_is_last_write :
    ∀ (ents : List (Nat × Codec.KV × Bool)) (s : SM),
    (∀ (e : Nat × Codec.KV × Bool), e ∈ ents → List.length (Codec.marshal e.snd.fst) < Codec.sizeMax) →
    ∃ s',
    applyEntries s (List.map (fun e => (e.fst, Codec.marshal e.snd.fst, e.snd.snd)) ents) = some s' ∧
    s'.kind = s.kind ∧
    s'.applied = s.applied ∧
    ∀ (k : Codec.Bytes),
    get s'.store k = Option.orElse (lastWrite k (List.map (fun x => x.snd.fst) ents)) fun x => get s.store k :=
  @_root_.Kvsm.applyEntries_lookup

theorem observers_identity :
    ∀ (s : SM) (o : Op),
    (∀ (ents : List Entry), o ≠ Op.update ents) → (∀ (sn : Snap), o ≠ Op.recover sn) → step s o = some s :=
  @_root_.Kvsm.observers_identity

theorem run_ignores_observers :
    ∀ (ops : List Op) (s : SM), run s ops = run s (List.filter Op.mutates ops) :=
  @_root_.Kvsm.run_ignores_observers

theorem snapshot_restores_exactly_mem_conc :
    ∀ (s f : SM),
    s.kind ≠ Kind.disk →
    f.kind = s.kind →
    ∃ f', recover f (snapshot s) = some f' ∧ f'.store = s.store ∧ f'.count = s.count ∧ f'.kind = s.kind :=
  @_root_.Kvsm.recover_snapshot_mem

theorem snapshot_restores_exactly_disk :
    ∀ (s f : SM),
    s.kind = Kind.disk →
    f.kind = Kind.disk →
    f.applied ≤ s.applied →
    ∃ f', recover f (snapshot s) = some f' ∧ f'.applied = s.applied ∧ f'.kind = Kind.disk ∧ f'.store = s.store :=
  @_root_.Kvsm.recover_snapshot_disk

theorem disk_refuses_older_snapshot :
    ∀ (f : SM) (sn : Snap), f.kind = Kind.disk → sn.applied < f.applied → recover f sn = none :=
  @_root_.Kvsm.recover_disk_refuses_older

theorem pooled_decoder_leak_witness :
    ∀ (s : SM) (k1 v1 k2 : Codec.Bytes),
    s.pool = some { key := k1, val := v1 } →
    k2 ≠ [] →
    List.length (Codec.marshal { key := k2 }) < Codec.sizeMax →
    ∃ s',
    updateUnfixed s true (Codec.marshal { key := k2 }) = Out.ok s' (List.length (Codec.marshal { key := k2 })) ∧
    get s'.store k2 = some v1 :=
  @_root_.Kvsm.pooled_leak

end C15
end Kvsm
