import DrummerVerif.Lemmas.C16P
import DrummerVerif.Lemmas.C16D
/-!
# C16 — the on-disk test state machine is crash-consistent at every crash point (pointer protocol)

Property theorems only; every proof is a reference to a lemma in `Lemmas/`. The statement printed here is
the full statement (all quantifiers explicit).
-/
namespace DiskKV
namespace C16

theorem open_never_panics :
    ∀ (s : FS),
    Reach s → openAfter (crash s) = OpenRes.newRun ∨ ∃ d, openAfter (crash s) = OpenRes.reopen d :=
  @_root_.DiskKV.open_never_panics

theorem reachable_states_satisfy_invariant :
    ∀ (s : FS), Reach s → Inv s :=
  @_root_.DiskKV.reach_inv

theorem invariant_survives_crash :
    ∀ (s : FS), Inv s → Inv (crash s) :=
  @_root_.DiskKV.crash_inv

theorem step_preserves_invariant :
    ∀ (s : FS) (p : Prim), Inv s → Pre s p → Inv (step s p) :=
  @_root_.DiskKV.step_inv

theorem open_after_crash_ok :
    ∀ (s : FS),
    Inv s → openAfter (crash s) = OpenRes.newRun ∨ ∃ d, openAfter (crash s) = OpenRes.reopen d :=
  @_root_.DiskKV.open_after_crash_ok

theorem crash_anywhere_in_a_run :
    ∀ (ps : List Prim) (s : FS),
    Inv s →
    runPre s ps →
    ∀ (k : Nat),
    openAfter (crash (List.foldl step s (List.take k ps))) = OpenRes.newRun ∨
    ∃ d, openAfter (crash (List.foldl step s (List.take k ps))) = OpenRes.reopen d :=
  @_root_.DiskKV.crash_anywhere_ok

theorem first_open_meets_preconditions :
    ∀ (s : FS) (d : Nat), runPre s (fixedOpenNew d) :=
  @_root_.DiskKV.fixedOpenNew_pre

theorem snapshot_recovery_meets_preconditions :
    ∀ (s : FS) (d old : Nat), d ≠ old → runPre s (recoverSeq d old) :=
  @_root_.DiskKV.recoverSeq_pre

theorem pointer_protocol_crash_safe :
    ∀ (s : FS),
    Inv s →
    ∀ (d old : Nat),
    d ≠ old →
    ∀ (k : Nat),
    (openAfter (crash (List.foldl step s (List.take k (fixedOpenNew d)))) = OpenRes.newRun ∨
    ∃ x, openAfter (crash (List.foldl step s (List.take k (fixedOpenNew d)))) = OpenRes.reopen x) ∧
    (openAfter (crash (List.foldl step s (List.take k (recoverSeq d old)))) = OpenRes.newRun ∨
    ∃ x, openAfter (crash (List.foldl step s (List.take k (recoverSeq d old)))) = OpenRes.reopen x) :=
  @_root_.DiskKV.pointer_protocol_crash_safe

theorem stable_directory_reopens :
    ∀ (s : FS) (d : Nat), Stable s d → openAfter (crash s) = OpenRes.reopen d :=
  @_root_.DiskKV.stable_reopens

theorem first_open_leaves_directory_stable :
    ∀ (d : Nat), Stable (List.foldl step { } (fixedOpenNew d)) d :=
  @_root_.DiskKV.stable_first_open

theorem crash_keeps_directory_stable :
    ∀ (s : FS) (d : Nat), Stable s d → Stable (crash s) d :=
  @_root_.DiskKV.stable_crash

theorem recovery_switch_is_atomic_under_crash :
    ∀ (s : FS) (d old d0 : Nat),
      d ≠ old →
        Stable s d0 →
          ∀ (k : Nat),
            (Stable (crash (recState s d old k)) d0 ∨ Stable (crash (recState s d old k)) d) ∧
              (8 ≤ k → Stable (crash (recState s d old k)) d) :=
  @_root_.DiskKV.stable_recover_crash

theorem completed_recovery_is_stable :
    ∀ (s : FS) (d old d0 : Nat), d ≠ old → Stable s d0 → Stable (recState s d old 10) d :=
  @_root_.DiskKV.stable_recover_full

end C16
end DiskKV

namespace DiskKV.C16
/-- F-C16 witness (the first `Open` of the pinned commit): a crash right after the pointer is published durably and
    before the directory it names exists makes the next `Open` panic with "db dir unexpectedly deleted" -/
theorem pinned_first_open_not_crash_safe :
    openAfter (crash (((unfixedOpenNew 7).take 6).foldl step {})) = .panicDirMissing := by decide
/-- non-vacuity: the repaired first `Open` from the empty directory, crashed at each of its 9 points -/
example : ∀ k ≤ 8, openAfter (crash (((fixedOpenNew 7).take k).foldl step {})) = .newRun ∨
    openAfter (crash (((fixedOpenNew 7).take k).foldl step {})) = .reopen 7 := by decide
end DiskKV.C16
