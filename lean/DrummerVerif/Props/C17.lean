import DrummerVerif.Lemmas.C17
import DrummerVerif.Lemmas.C10H
import DrummerVerif.Lemmas.Small
/-!
# C17 — the Drummer service API is a faithful, crash-proof front-end of the DB

Property theorems only; every proof is a reference to a lemma in `Lemmas/`. The statement printed here is
the full statement (all quantifiers explicit).
-/
namespace Drummer
namespace C17

theorem malformed_refused :
    ∀ (d : DB) (c : ShardDef) (region : List String) (count : List Nat) (enc : Bytes),
    (c.members = [] ∨ c.appName = "" → apiSubmitChange d c = (ApiOut.invalidArgument, d)) ∧
    (region = [] ∨ List.length region ≠ List.length count →
    apiSetRegions d region count enc = (ApiOut.invalidArgument, d)) :=
  @_root_.Drummer.malformed_refused

theorem config_never_failstops :
    ∀ (d : DB),
    d.failed = false →
    ∀ (c : ShardDef) (region : List String) (count : List Nat) (enc : Bytes),
    (∀ (w : String), (apiSubmitChange d c).fst ≠ ApiOut.crashed w) ∧
    (∀ (w : String), (apiSetRegions d region count enc).fst ≠ ApiOut.crashed w) ∧
    ∀ (w : String), (apiSetBootstrapped d).fst ≠ ApiOut.crashed w :=
  @_root_.Drummer.config_never_failstops

theorem wellformed_definition_never_crashes :
    ∀ (d : DB) (c : ShardDef),
    List.isEmpty c.members = false → String.isEmpty c.appName = false → ∃ p, DB.applyShard d c = Outcome.ok p :=
  @_root_.Drummer.applyShard_no_panic

theorem wellformed_kv_never_crashes :
    ∀ (d : DB) (kv : KVRec),
    List.isEmpty kv.key = false → List.isEmpty kv.value = false → ∃ p, DB.applyKV d kv = Outcome.ok p :=
  @_root_.Drummer.applyKV_no_panic

theorem report_reply_is_pending_batch :
    ∀ (d d' : DB) (nhi : NodeHostInfo) (n : Nat) (a : Addr) (b : Box),
    DB.applyReport d nhi = Outcome.ok (d', n) →
    Rel d a b →
    Rel d' a (Box.report b nhi.raftAddress a) ∧
    (nhi.raftAddress = a → n = List.length (Option.getD b.pend []) ∧ DB.lookupRequests d' a = Option.getD b.pend []) :=
  @_root_.Drummer.applyReport_refines

/-! ### a report is on record at the DB's current logical time, whatever time field it carried -/

theorem report_is_recorded_at_the_current_time :
    ∀ (d d' : DB) (nhi : NodeHostInfo) (n : Nat),
      DB.applyReport d nhi = Outcome.ok (d', n) →
        Option.map (fun x => x.lastTick) (amGet d'.hostInfo nhi.raftAddress) = some d.tick :=
  @_root_.Drummer.report_recorded_at_current_time


end C17
end Drummer

namespace Drummer.C17
/-- `ReportAvailableNodeHost` = apply the report, then read that NodeHost's outgoing requests; with C10's refinement
    the reply is exactly the batch pending for that address -/
theorem report_then_read (d d' : DB) (nhi : NodeHostInfo) (n : Nat) (b : Box)
    (h : d.apply (.report nhi) = .ok (d', n)) (hr : Rel d nhi.raftAddress b) (hf : d.failed = false) :
    apiReport d nhi = (some (b.pend.getD []), d') := by
  unfold apiReport
  rw [h]
  have h2 : d.applyReport nhi = .ok (d', n) := by
    unfold DB.apply at h; simpa [hf] using h
  have := (applyReport_refines d d' nhi n nhi.raftAddress b h2 hr).2 rfl
  simp [this.2]

/-- queries are functions of the state alone (they propose nothing) -/
theorem queries_reflect_state (d : DB) :
    apiGetShards d = d.shards ∧ apiGetHosts d = (d.tick, d.hostInfo) ∧
    apiGetCci d = d.image.shards.map (fun c => (c.shardId, c.cci)) := ⟨rfl, rfl, rfl⟩

/-- configuration calls report the outcome the DB decided -/
theorem submit_outcome (d : DB) (c : ShardDef) (h1 : c.members.isEmpty = false) (h2 : c.appName.isEmpty = false)
    (hf : d.failed = false) :
    ∃ d' n, d.applyShard c = .ok (d', n) ∧ apiSubmitChange d c = (.code n, d') := by
  obtain ⟨p, hp⟩ := applyShard_no_panic d c h1 h2
  refine ⟨p.1, p.2, hp, ?_⟩
  unfold apiSubmitChange DB.apply
  simp [h1, h2, hf, hp]
end Drummer.C17
