import DrummerVerif.Lemmas.C18
import DrummerVerif.Lemmas.C01X
import DrummerVerif.Bridge.Bridge
import DrummerVerif.Lemmas.C01T
import DrummerVerif.Lemmas.C01P
/-!
# C18 — the NodeHost agent reports truthfully and executes requests once, in order

Property theorems only; every proof is a reference to a lemma in `Lemmas/`. The statement printed here is
the full statement (all quantifiers explicit).
-/
namespace Drummer
namespace C18

theorem never_hides_news :
    ∀ (adv : Option Nat) (cci : Nat) (pending : Bool),
      adv = none ∨ (∃ k, adv = some k ∧ k < cci) ∨ pending = true → reportIncomplete adv cci pending = false :=
  @_root_.Drummer.never_hides_news

theorem incomplete_when_current :
    ∀ (k cci : Nat), k ≥ cci → reportIncomplete (some k) cci false = true :=
  @_root_.Drummer.incomplete_when_current

theorem report_lists_everything :
    ∀ (addr api : String) (locals : List LocalShard) (adv : List (Nat × Nat)) (li : Bool)
      (log : List LogInfo),
      (agentReport addr api locals adv li log).shardIdList = List.map (fun x => x.shardId) locals ∧
        List.map (fun i => (i.shardId, i.replicaId, i.cci, i.pending)) (agentReport addr api locals adv li log).shardInfo =
          List.map (fun l => (l.shardId, l.replicaId, l.cci, l.pending)) locals :=
  @_root_.Drummer.report_lists_everything

theorem report_never_hides_news :
    ∀ (addr api : String) (locals : List LocalShard) (adv : List (Nat × Nat)) (li : Bool)
      (log : List LogInfo) (l : LocalShard),
      l ∈ locals →
        Option.map (fun x => x.snd) (List.find? (fun x => x.fst == l.shardId) adv) = none ∨
            (∃ k, Option.map (fun x => x.snd) (List.find? (fun x => x.fst == l.shardId) adv) = some k ∧ k < l.cci) ∨
              l.pending = true →
          ∃ i,
            i ∈ (agentReport addr api locals adv li log).shardInfo ∧
              i.shardId = l.shardId ∧ i.replicaId = l.replicaId ∧ i.incomplete = false ∧ i.replicas = l.members :=
  @_root_.Drummer.report_never_hides_news

theorem loginfo_iff_announced :
    ∀ (addr api : String) (locals : List LocalShard) (adv : List (Nat × Nat)) (li : Bool)
      (log : List LogInfo),
      (agentReport addr api locals adv li log).plogIncluded = li ∧ (agentReport addr api locals adv li log).plogInfo = log :=
  @_root_.Drummer.loginfo_iff_announced

theorem dispatch_once_in_order :
    ∀ (reqs : List Request),
      (∀ (r : Request), r ∈ reqs → ∃ w, w ∈ dispatch reqs ∧ w.fst = r.shardId ∧ r ∈ w.snd) ∧
        ∀ (w : Nat × List Request),
          w ∈ dispatch reqs → w.snd = List.filter (fun x => x.shardId == w.fst) reqs ∧ List.Sublist w.snd reqs :=
  @_root_.Drummer.dispatch_spec

theorem dispatch_keys_nodup :
    ∀ (reqs : List Request), List.Nodup (List.map (fun x => x.fst) (dispatch reqs)) :=
  @_root_.Drummer.dispatch_keys_nodup

theorem restore_request_restarts_from_data :
    ∀ (l : Loop) (h : Host) (r : Request) (ap : Int),
      Host.run? h r.shardId = none →
        r.restore = true →
          r.join = false →
            Host.dataGet h r.shardId r.instantiateReplicaId = some ap →
              Loop.execCreate l h r =
                Loop.setHost l (Host.setRun h { shard := r.shardId, id := r.instantiateReplicaId, applied := ap }) :=
  @_root_.Drummer.execCreate_restore_runs

theorem join_request_starts_replica :
    ∀ (l : Loop) (h : Host) (r : Request),
      Host.run? h r.shardId = none →
        r.join = true →
          ∃ h',
            Loop.execCreate l h r = Loop.setHost l h' ∧
              Host.run? h' r.shardId =
                some
                  { shard := r.shardId, id := r.instantiateReplicaId,
                    applied := Option.getD (Host.dataGet h r.shardId r.instantiateReplicaId) (-1) } :=
  @_root_.Drummer.execCreate_join_runs

theorem code_incomplete_condition :
    ∀ (k cci : Nat) (pending : Bool),
      Gen.agent_incomplete true k cci pending = reportIncomplete (some k) cci pending ∧
        Gen.agent_incomplete false k cci pending = reportIncomplete none cci pending :=
  @_root_.Drummer.bridge_agentIncomplete

theorem join_request_starts_whatever_the_data :
    ∀ (hasInfo : Bool), instantiate true false hasInfo = InstOutcome.start true :=
  @_root_.Drummer.instantiate_join_starts

theorem restore_request_starts_iff_data :
    ∀ (hasInfo : Bool),
      InstOutcome.started (instantiate false true hasInfo) = hasInfo ∧
        (hasInfo = true → instantiate false true hasInfo = InstOutcome.start false) :=
  @_root_.Drummer.instantiate_restore_iff_data

theorem launch_request_starts_fresh_replica :
    instantiate false false false = InstOutcome.start false :=
  @_root_.Drummer.instantiate_launch_fresh

theorem fleet_model_follows_agent_table :
    ∀ (l : Loop) (h : Host) (r : Request),
      Host.run? h r.shardId = none →
        (r.join = false → r.restore = false → Option.isSome (Loop.group? l r.shardId) = false) →
          instantiate r.join r.restore (Option.isSome (Host.dataGet h r.shardId r.instantiateReplicaId)) ≠
              InstOutcome.panic →
            if
                InstOutcome.started
                    (instantiate r.join r.restore (Option.isSome (Host.dataGet h r.shardId r.instantiateReplicaId))) =
                  true then
              ∃ l' h',
                Loop.execCreate l h r = Loop.setHost l' h' ∧
                  Option.map (fun x => x.id) (Host.run? h' r.shardId) = some r.instantiateReplicaId
            else Loop.execCreate l h r = l :=
  @_root_.Drummer.execCreate_follows_table

/-- truthfulness inside the closed loop: every entry of a host's report names a replica the host runs at that moment
(the converse, every running replica is listed, is `Props/C01.every_running_replica_is_reported`) -/
theorem report_lists_only_running_replicas :
    ∀ (l : Loop) (h : Host) (count : Nat) (ci : ShardInfo),
      ci ∈ (Loop.buildReport l h count).shardInfo →
        ∃ rep, Host.run? h ci.shardId = some rep ∧ rep.id = ci.replicaId :=
  @_root_.Drummer.buildReport_lists_only_running

/-- where "Drummer holds the NodeHost's log record" comes from: the first report of a NodeHost after it came back (and every
third one) announces its persisted logs; afterwards the replicated state has a record under the NodeHost's address,
stamped with the current time, that lists the log of every replica the NodeHost holds data for (replica ids below 10^12,
the range on which the model's canonical order of the announced list is defined) -/
theorem first_report_records_the_logs :
    ∀ (l l' : Loop) (a : Addr) (lost : Bool) (n : Nat) (h0 : Host), Loop.host? l a = some h0 →
      (h0.reportCount = 0 ∨ (h0.reportCount + 1) % 3 = 0) →
        ∀ (s rid : Nat) (ap : Int), ((s, rid), ap) ∈ h0.data → rid < 1000000000000 →
          Loop.report l a lost = Outcome.ok (l', n) →
            ∃ spec, hostFind? l'.db.hosts a = some spec ∧ spec.tick = l.db.tick ∧ HostSpec.hasLog spec s rid = true :=
  @_root_.Drummer.first_report_records_the_logs

end C18
end Drummer
