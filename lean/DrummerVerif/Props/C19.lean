import DrummerVerif.Lemmas.C19
/-!
# C19 — the NodeHost API facade is transparent and hands out the right session kind

Property theorems only; every proof is a reference to a lemma in `Lemmas/`. The statement printed here is
the full statement (all quantifiers explicit).
-/
namespace NHApi
namespace C19

theorem session_kind_correct :
    ∀ (hosted : List (Nat × SMType)) (c : Cache) (sid : Nat),
    Cache.Sound hosted c →
    (match List.find? (fun x => x.fst == sid) hosted with
    | some p => (supportNew hosted c sid).fst = some (decide (p.snd ≠ SMType.onDisk))
    | none => (supportNew hosted c sid).fst = none) ∧
    Cache.Sound hosted (supportNew hosted c sid).snd :=
  @_root_.NHApi.supportNew_correct

theorem session_roundtrip :
    ∀ (s : Session) (p : PBSession), toNH (toPB s) = s ∧ toPB (toNH p) = p :=
  @_root_.NHApi.session_roundtrip

end C19
end NHApi

namespace NHApi.C19
/-- the answers to a sequence of queries, threading the cache -/
def answers (hosted : List (Nat × SMType)) : Cache → List Nat → List (Option Bool)
  | _, [] => []
  | c, q :: qs => (supportNew hosted c q).1 :: answers hosted (supportNew hosted c q).2 qs

/-- **every sequence of queries, in any order, against any list of hosted shards in any order**: each query for a
    hosted shard answers `type ≠ on-disk`, each query for a non-hosted shard is an error (`none`), whatever was asked
    before -/
theorem answers_correct (hosted : List (Nat × SMType)) : ∀ (qs : List Nat) (c : Cache), c.Sound hosted →
    answers hosted c qs = qs.map fun q => (hosted.find? (·.1 == q)).map (fun p => decide (p.2 ≠ .onDisk)) := by
  intro qs
  induction qs with
  | nil => intro c _; rfl
  | cons q qs ih =>
    intro c hs
    obtain ⟨h1, h2⟩ := supportNew_correct hosted c q hs
    simp only [answers, List.map_cons]
    rw [ih _ h2]
    congr 1
    cases hf : hosted.find? (·.1 == q) with
    | none => rw [hf] at h1; simpa using h1
    | some p => rw [hf] at h1; simpa using h1

theorem empty_cache_sound (hosted : List (Nat × SMType)) : Cache.Sound hosted [] := by
  intro sid v h; simp [Cache.lookup] at h

/-- the error table is total: every error value is mapped to one of the six defined codes, as listed -/
theorem error_table (e : Err) :
    grpcCode e = match e with
      | .invalidSession | .payloadTooBig | .timeoutTooSmall => .invalidArgument
      | .systemBusy | .closed | .shardClosed => .unavailable
      | .shardNotFound => .notFound
      | .ctxCanceled | .canceled => .canceled
      | .ctxDeadline | .timeout => .deadlineExceeded
      | .other => .unknown := by cases e <;> rfl

/-- F-C19 witness on the pinned code's model: a regular shard listed before an on-disk one is handed a no-op
    session, and a shard that is not hosted is handed a session instead of an error -/
theorem pinned_session_kind_wrong :
    (supportOld [(10, .regular), (20, .onDisk)] [] 10).1 = some false ∧ (supportOld [(10, .regular)] [] 30).1 = some true := by decide
end NHApi.C19
