import DrummerVerif.Lemmas.C20
import DrummerVerif.Lemmas.C20T
/-!
# C20 — the KV command codec round-trips and rejects garbage without crashing

Property theorems only; every proof is a reference to a lemma in `Lemmas/`. The statement printed here is
the full statement (all quantifiers explicit).
-/
namespace Codec
namespace C20

theorem decode_never_reads_out_of_bounds :
    ∀ (o : KV) (data : Bytes), unmarshalBinary o data ≠ Res.oob :=
  @_root_.Codec.unmarshalBinary_ne_oob

theorem unmarshal_never_reads_out_of_bounds :
    ∀ (o : KV) (data : Bytes), unmarshal o data ≠ Res.oob :=
  @_root_.Codec.unmarshal_ne_oob

theorem roundtrip_into_any_object :
    ∀ (o0 o : KV),
    List.length (marshal o) < sizeMax →
    unmarshalBinary o0 (marshal o) =
    Res.ok (List.length (marshal o))
    { key := if o.key = [] then o0.key else o.key, val := if o.val = [] then o0.val else o.val } :=
  @_root_.Codec.unmarshal_marshal

theorem roundtrip_fresh :
    ∀ (o : KV),
    List.length (marshal o) < sizeMax → unmarshalBinary { } (marshal o) = Res.ok (List.length (marshal o)) o :=
  @_root_.Codec.roundtrip_fresh

theorem declared_length_is_produced_length :
    ∀ (o : KV) (n : Nat), marshalLen o = LenRes.ok n → n = List.length (marshal o) :=
  @_root_.Codec.marshalLen_eq

theorem roundtrip_with_suffix :
    ∀ (o0 o : KV) (suf : Bytes),
    List.length (marshal o) < sizeMax →
    unmarshal o0 (marshal o ++ suf) =
    Res.ok (List.length (marshal o))
    { key := if o.key = [] then o0.key else o.key, val := if o.val = [] then o0.val else o.val } :=
  @_root_.Codec.unmarshal_marshal_append

theorem tail_reported :
    ∀ (o0 o : KV) (suf : Bytes),
    suf ≠ [] →
    List.length (marshal o) < sizeMax →
    unmarshalBinary o0 (marshal o ++ suf) =
    Res.err (Err.tail (List.length (marshal o)))
    { key := if o.key = [] then o0.key else o.key, val := if o.val = [] then o0.val else o.val } :=
  @_root_.Codec.tail_reported

theorem varint_roundtrip :
    ∀ (x acc shift fuel : Nat) (pre rest : Bytes),
    acc < 2 ^ shift →
    shift < 64 →
    x * 2 ^ shift < 2 ^ 63 →
    fuel ≥ varLen x →
    decLoop (pre ++ encVar x ++ rest) fuel acc shift (List.length pre) =
    some (acc + x * 2 ^ shift, List.length pre + varLen x) :=
  @_root_.Codec.decLoop_encVar

end C20
end Codec
