import DrummerVerif.Props.C01
import DrummerVerif.Props.C02
import DrummerVerif.Props.C12
import DrummerVerif.Props.C11
/-!
# Non-vacuity witnesses

Concrete scheduler contexts on which the hypotheses of the scheduler-level property theorems hold and the rounds really
produce requests: the theorems are applied to them (so their premises are satisfiable), and the rounds are evaluated
by the kernel (`rfl`).
-/
namespace Drummer.Witness

def r1 : Replica := { shardId := 1, replicaId := 101, address := "a1", tick := 100 }
def r2 : Replica := { shardId := 1, replicaId := 102, address := "a2", tick := 100 }
def r3 : Replica := { shardId := 1, replicaId := 103, address := "a3", tick := 10 }     -- silent since 10: failed at 100
def sh : Shard := { shardId := 1, cci := 3, replicas := [r1, r2, r3] }
def cr0 : ShardRepair := { shard := sh, failed := [r3], ok := [r1, r2], toStart := [] }
def hs (a : String) (t : Nat) (p : List LogInfo) (s : List Nat) : HostSpec :=
  { address := a, rpcAddress := "rpc", region := "r", tick := t, plog := p, shards := s }
def d0 : ShardDef := { shardId := 1, members := [101, 102, 103], appName := "app" }
def l3 : LogInfo := { shardId := 1, replicaId := 103 }

/-- the stopped member's NodeHost is back and lists its log: restore -/
def hostsA : List HostSpec := [hs "a1" 100 [] [1], hs "a2" 100 [] [1], hs "a3" 100 [l3] [1]]
def cxA : Ctx :=
  { tick := 100, defs := [d0], regions := none, hosts := hostsA, allHosts := hostsA, repairs := [cr0], toKill := [] }

/-- the failed member's NodeHost stays silent, a spare NodeHost is live: replace, and a stray replica is recorded -/
def hostsB : List HostSpec := [hs "a1" 100 [] [1], hs "a2" 100 [] [1], hs "a3" 10 [] [1], hs "a4" 100 [] []]
def kill0 : KillEntry := { shardId := 2, replicaId := 205, address := "a4" }
def cxB : Ctx :=
  { tick := 100, defs := [d0], regions := none, hosts := hostsB, allHosts := hostsB, repairs := [cr0], toKill := [kill0] }

theorem roundA : maintain cxA [5, 6, 7] = .ok [createReq r3 sh "app" false true] [5, 6, 7] := by rfl
theorem restoreA : restore cxA = .ok [createReq r3 sh "app" false true] := by rfl
theorem repairB : repairOne cxB cr0 [3, 4, 777, 8] =
    .ok [{ type := .add, shardId := 1, members := [777], confChangeId := 3, raftAddress := "a1", addressList := ["a4"] }] [8] := by rfl
theorem roundB : maintain cxB [3, 4, 777, 8] =
    .ok [{ type := .add, shardId := 1, members := [777], confChangeId := 3, raftAddress := "a1", addressList := ["a4"] },
         killReq kill0] [8] := by rfl

/-- C01 `never_silent_on_a_shard_that_needs_work` applies to context A -/
example : ∃ r ∈ [createReq r3 sh "app" false true], r.shardId = cr0.shard.shardId ∧ r.type = .create :=
  C01.never_silent_on_a_shard_that_needs_work cxA [5, 6, 7] [5, 6, 7] _ roundA cr0 (by simp [cxA])
    (by intro cr' h _; simp [cxA] at h; exact h) d0 (by rfl) (Or.inl (by simp [cr0]))
    (by intro n hn; simp [cr0] at hn; subst hn; decide)

/-- C12 `restore_justified` applies to context A: the restore request is justified -/
example : RestoreJust cxA (createReq r3 sh "app" false true) :=
  C12.restore_justified cxA _ restoreA _ (by simp)

/-- C02 `repair_decision_justified` applies to context B: the ADD is justified (live host not hosting the shard, fresh id,
    view version, healthy majority) -/
example : RepairJust cxB cr0
    { type := .add, shardId := 1, members := [777], confChangeId := 3, raftAddress := "a1", addressList := ["a4"] } :=
  (C02.repair_decision_justified cxB cr0 [3, 4, 777, 8] _ [8]
    (by intro x hx; simp [cr0] at hx; subst hx; rfl) repairB).2 _ (by simp)

/-- C11 `kill_requests_exactly_the_recorded_strays` applies to context B: the recorded stray gets its kill request -/
example : killReq kill0 ∈
    [({ type := .add, shardId := 1, members := [777], confChangeId := 3, raftAddress := "a1", addressList := ["a4"] } : Request),
     killReq kill0] :=
  (C11.kill_requests_exactly_the_recorded_strays cxB [3, 4, 777, 8] [8] _
    (by intro cr h x hx; simp [cxB] at h; subst h; simp [cr0] at hx; subst hx; rfl) roundB).1 kill0 (by simp [cxB])

end Drummer.Witness
