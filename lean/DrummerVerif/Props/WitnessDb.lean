import DrummerVerif.Props.C09
import DrummerVerif.Props.C10
import DrummerVerif.Props.C11
import DrummerVerif.Props.C04
import DrummerVerif.Props.C05
/-!
# Non-vacuity witnesses, replicated state

One concrete command history of the DB model that goes through the situations the C04 / C05 / C09 / C10 / C11 theorems
talk about: a launch is accepted and arms the deadline; the members report and the deadline is disarmed; a second launch
is ignored; without reports the deadline fail-stops the DB; a batch is picked up once; a stray replica is recorded and
forgotten. Every line is evaluated by the kernel.
-/
namespace Drummer.WitnessDb

def d1 : ShardDef := { shardId := 1, members := [101, 102, 103], appName := "app" }
def launchReq (rid : Nat) (a : Addr) : Request :=
  { type := .create, shardId := 1, members := [101, 102, 103], replicaIdList := [101, 102, 103],
    addressList := ["a1", "a2", "a3"], instantiateReplicaId := rid, raftAddress := a, appName := "app" }
def launchBatch : List Request := [launchReq 101 "a1", launchReq 102 "a2", launchReq 103 "a3"]
def members : List (Nat × Addr) := [(101, "a1"), (102, "a2"), (103, "a3")]
def rep (a : Addr) (rid : Nat) : NodeHostInfo :=
  { raftAddress := a, shardIdList := [1], shardInfo := [{ shardId := 1, replicaId := rid, cci := 3, replicas := members }] }
def stray : NodeHostInfo :=
  { raftAddress := "a4", shardIdList := [1], shardInfo := [{ shardId := 1, replicaId := 104, cci := 2, replicas := [(104, "a4")] }] }
def idle (a : Addr) : NodeHostInfo := { raftAddress := a }

def launched : List Cmd := [.shard d1, .tick, .requests launchBatch]
def reported : List Cmd := launched ++ [.report (rep "a1" 101), .tick, .report (rep "a2" 102), .report (rep "a3" 103)]

def get (cs : List Cmd) (f : DB → Bool) : Bool := match runCmds {} cs with | .ok d => f d | .panic _ => false
def panics (cs : List Cmd) : Bool := match runCmds {} cs with | .ok _ => false | .panic _ => true

/-- C09: the launch is accepted, recorded, and arms the deadline `launchDeadlineTick` ticks ahead -/
example : get launched (fun d => d.launched && d.launchDeadline == 5 + launchDeadlineTick * tickInterval) = true := by decide
/-- C10: each host finds its launch request in its mailbox, picks it up with its report, and finds nothing the next time -/
example : get launched (fun d => d.requests.length == 3) = true := by decide
example : get (launched ++ [.report (idle "a1")]) (fun d => (d.lookupRequests "a1").length == 1) = true := by decide
example : get (launched ++ [.report (idle "a1"), .report (idle "a1")]) (fun d => (d.lookupRequests "a1").length == 0) = true := by decide
/-- C09: once every member has reported the deadline is disarmed, and stays so while time passes -/
example : get reported (fun d => d.launchDeadline == 0) = true := by decide
example : get (reported ++ List.replicate 40 .tick) (fun d => d.launchDeadline == 0 && !d.failed) = true := by decide
/-- C09: a second launch batch is ignored -/
example : get (reported ++ [.requests launchBatch]) (fun d => d.requests.length == 0 && d.launchDeadline == 0) = true := by decide
/-- C09: without complete reports the first tick after the deadline fail-stops the DB, and every later command is refused -/
example : get (launched ++ List.replicate 24 .tick) (fun d => !d.failed && d.tick == d.launchDeadline) = true := by decide
example : panics (launched ++ List.replicate 25 .tick) = true := by decide
/-- C04 / C05: the view is the reported membership at its version; a member that reported is healthy, one that has been
    silent for longer than the timeout is failed -/
example : get reported (fun d => d.image.shards.length == 1 &&
    d.image.shards.all (fun c => c.cci == 3 && c.replicas.length == 3 && (c.okReplicas d.tick).length == 3)) = true := by decide
example : get (reported ++ List.replicate 13 .tick ++ [.report (rep "a1" 101), .report (rep "a2" 102)])
    (fun d => d.image.shards.all (fun c => (c.okReplicas d.tick).length == 2 && (c.failedReplicas d.tick).length == 1)) = true := by decide
/-- C11: a replica that is not a member of the newer view is recorded for killing when it is reported, and forgotten
    once its host no longer reports it -/
example : get (reported ++ [.report stray]) (fun d => d.image.toKill.length == 1 &&
    d.image.toKill.all (fun k => k.shardId == 1 && k.replicaId == 104 && k.address == "a4")) = true := by decide
example : get (reported ++ [.report stray, .report (idle "a4")]) (fun d => d.image.toKill.length == 0) = true := by decide
/-- C04: the stale report of the stray replica did not alter the view -/
example : get (reported ++ [.report stray]) (fun d => d.image.shards.all (fun c => c.cci == 3 && c.replicas.length == 3)) = true := by decide

/-- C05 / C01 `silent_member_is_detected`: the hypotheses are met by the history above - member 103 was last reported at
    time 10; a tail of 13 ticks and reports of the two other NodeHosts does not list it and carries the clock 65 > 60 past
    that time; and indeed the views then classify it failed -/
def silentTail : List Cmd := List.replicate 13 .tick ++ [.report (rep "a1" 101), .report (rep "a2" 102)]
example : get reported (fun d => d.tick == 10 && d.image.shards.all (fun c => c.shardId != 1 ||
    c.replicas.all (fun r => r.replicaId != 103 || r.tick == 10))) = true := by decide
example : (10 + ticksIn silentTail * tickInterval - 10 > nodeHostTTL) ∧ ticksIn silentTail = 13 := by decide
example : silentTail.all (fun c => match c with
    | .report nhi => nhi.shardInfo.all (fun ci => !(ci.shardId == 1 && ci.replicaId == 103))
    | _ => true) = true := by decide
example : get (reported ++ silentTail) (fun d => d.image.shards.all (fun c =>
    c.replicas.all (fun r => r.replicaId != 103 || (r.failed d.tick && r.tick == 10)))) = true := by decide

end Drummer.WitnessDb
