import DrummerVerif.Lemmas.C01F
/-! Non-vacuity of `crashed_nodehost_is_healed_again`: three NodeHosts, TWO shards of three members each; NodeHost a1
    crashed with both replicas it ran (101 of shard 1, 201 of shard 2), is back with the data and has reported its logs;
    both members are classified failed, the other four are running and healthy. The round, the report, the execution and
    the next report are evaluated by the kernel; the theorem then says the fleet is settled and all six members run. -/
namespace Drummer
namespace FleetWitness
def m1 : Membership := { ver := 1, members := [(101, "a1"), (102, "a2"), (103, "a3")], removed := [] }
def m2 : Membership := { ver := 1, members := [(201, "a1"), (202, "a2"), (203, "a3")], removed := [] }
def g1 : Group := { shard := 1, hist := [m1] }
def g2 : Group := { shard := 2, hist := [m2] }
def h1 : Host := { addr := "a1", data := [((1, 101), (0 : Int)), ((2, 201), (0 : Int))] }
def h2 : Host := { addr := "a2", running := [⟨1, 102, 0⟩, ⟨2, 202, 0⟩], data := [((1, 102), (0 : Int)), ((2, 202), (0 : Int))] }
def h3 : Host := { addr := "a3", running := [⟨1, 103, 0⟩, ⟨2, 203, 0⟩], data := [((1, 103), (0 : Int)), ((2, 203), (0 : Int))] }
def r11 : Replica := { shardId := 1, replicaId := 101, address := "a1", tick := 5, firstObserved := 5 }
def r12 : Replica := { shardId := 1, replicaId := 102, address := "a2", tick := 100, firstObserved := 5 }
def r13 : Replica := { shardId := 1, replicaId := 103, address := "a3", tick := 100, firstObserved := 5 }
def r21 : Replica := { shardId := 2, replicaId := 201, address := "a1", tick := 5, firstObserved := 5 }
def r22 : Replica := { shardId := 2, replicaId := 202, address := "a2", tick := 100, firstObserved := 5 }
def r23 : Replica := { shardId := 2, replicaId := 203, address := "a3", tick := 100, firstObserved := 5 }
def v1 : Shard := { shardId := 1, cci := 1, replicas := [r11, r12, r13] }
def v2 : Shard := { shardId := 2, cci := 1, replicas := [r21, r22, r23] }
def d1 : ShardDef := { shardId := 1, members := [101, 102, 103], appName := "app" }
def d2 : ShardDef := { shardId := 2, members := [201, 202, 203], appName := "app" }
def s1 : HostSpec := { address := "a1", rpcAddress := "rpc-a1", region := "r", tick := 100, plog := [⟨1, 101⟩, ⟨2, 201⟩], shards := [1, 2] }
def s2 : HostSpec := { address := "a2", rpcAddress := "rpc-a2", region := "r", tick := 100, plog := [⟨1, 102⟩, ⟨2, 202⟩], shards := [1, 2] }
def s3 : HostSpec := { address := "a3", rpcAddress := "rpc-a3", region := "r", tick := 100, plog := [⟨1, 103⟩, ⟨2, 203⟩], shards := [1, 2] }
def fdb : DB := { tick := 100, shards := [d1, d2], image := { shards := [v1, v2] }, hosts := [s1, s2, s3] }
def fl : Loop := { db := fdb, hosts := [h1, h2, h3], groups := [g1, g2], nextVer := 1 }
def cr1 : ShardRepair := { shard := v1, failed := [r11], ok := [r12, r13], toStart := [] }
def cr2 : ShardRepair := { shard := v2, failed := [r21], ok := [r22, r23], toStart := [] }
def fcx : Ctx := { tick := 100, defs := [d1, d2], regions := none, hosts := [s1, s2, s3], allHosts := [s1, s2, s3], repairs := [cr1, cr2], toKill := [] }

theorem classes1 : v1.failedReplicas 100 = [r11] ∧ v1.okReplicas 100 = [r12, r13] ∧ v1.toStart 100 = [] ∧
    v1.available 100 = true := by decide
theorem classes2 : v2.failedReplicas 100 = [r21] ∧ v2.okReplicas 100 = [r22, r23] ∧ v2.toStart 100 = [] ∧
    v2.available 100 = true := by decide

theorem settled : fl.Settled := by
  refine ⟨?_, ?_, ?_, rfl, rfl⟩
  · intro c hc
    simp [fl, fdb] at hc
    rcases hc with rfl | rfl
    · exact ⟨g1, rfl, rfl⟩
    · exact ⟨g2, rfl, rfl⟩
  · intro h hh rep hrep
    simp [fl] at hh
    rcases hh with rfl | rfl | rfl
    · simp [h1] at hrep
    · simp [h2] at hrep
      rcases hrep with rfl | rfl
      · exact ⟨g1, rfl, by simp [g1], rfl, v1, by simp [fl, fdb], rfl⟩
      · exact ⟨g2, rfl, by simp [g2], rfl, v2, by simp [fl, fdb], rfl⟩
    · simp [h3] at hrep
      rcases hrep with rfl | rfl
      · exact ⟨g1, rfl, by simp [g1], rfl, v1, by simp [fl, fdb], rfl⟩
      · exact ⟨g2, rfl, by simp [g2], rfl, v2, by simp [fl, fdb], rfl⟩
  · intro h hh
    simp [fl] at hh
    rcases hh with rfl | rfl | rfl <;> rfl

theorem ctxOnce : CtxOnce fdb fcx := by
  refine { repairs := ?_, defs := ?_, needed := ?_, complete := ?_, kills := rfl, now := rfl, hostsAll := rfl, defsAll := ?_,
           once := by simp [fcx, cr1, cr2, v1, v2] }
  · intro cr hcr
    simp [fcx] at hcr
    rcases hcr with rfl | rfl
    · refine ⟨by simp [fdb, cr1], ?_, ?_, ?_⟩
      · show [r11].Perm (v1.failedReplicas 100); rw [classes1.1]
      · show [r12, r13].Perm (v1.okReplicas 100); rw [classes1.2.1]
      · show [].Perm (v1.toStart 100); rw [classes1.2.2.1]
    · refine ⟨by simp [fdb, cr2], ?_, ?_, ?_⟩
      · show [r21].Perm (v2.failedReplicas 100); rw [classes2.1]
      · show [r22, r23].Perm (v2.okReplicas 100); rw [classes2.2.1]
      · show [].Perm (v2.toStart 100); rw [classes2.2.2.1]
  · intro dd hdd
    simp [fcx] at hdd
    rcases hdd with rfl | rfl <;> simp [fdb]
  · intro cr hcr
    simp [fcx] at hcr
    rcases hcr with rfl | rfl
    · exact Or.inl (by simp [cr1])
    · exact Or.inl (by simp [cr2])
  · intro c hc _
    simp [fdb] at hc
    rcases hc with rfl | rfl
    · exact ⟨cr1, by simp [fcx], rfl⟩
    · exact ⟨cr2, by simp [fcx], rfl⟩
  · intro dd hdd
    simp [fdb] at hdd
    rcases hdd with rfl | rfl <;> simp [fcx]

theorem down : fdb.OneHostDown "a1" s1 := by
  intro c hc
  simp [fdb] at hc
  rcases hc with rfl | rfl
  · exact Or.inr ⟨r11, classes1.1, classes1.2.2.1, classes1.2.2.2, rfl, by decide, d1, by simp [fdb], rfl⟩
  · exact Or.inr ⟨r21, classes2.1, classes2.2.2.1, classes2.2.2.2, rfl, by decide, d2, by simp [fdb], rfl⟩

/-- the round, evaluated -/
def frs : List Request := match maintain fcx [] with | .ok rs _ => rs | _ => []
def fdb' : DB := match fdb.applyRequests frs with | .ok (d, _) => d | .panic _ => fdb
def fl2 : Loop := match ({ fl with db := fdb' } : Loop).report "a1" false with | .ok (l, _) => l | .panic _ => fl
def fl4 : Loop := match (fl2.execute "a1").report "a1" false with | .ok (l, _) => l | .panic _ => fl

#guard frs.length == 2
#guard frs.map (fun r => (r.shardId, r.instantiateReplicaId, r.raftAddress, r.restore)) == [(1, 101, "a1", true), (2, 201, "a1", true)]
#guard match ({ fl with db := fdb' } : Loop).report "a1" false with | .ok (_, k) => k == 2 | _ => false
#guard match (fl2.execute "a1").report "a1" false with | .ok (_, k) => k == 0 | _ => false

/-- every hypothesis of `crashed_nodehost_is_healed_again` holds of this state; its conclusion: after the round, a1's
    report, its execution and its next report, the fleet is settled and all six members are running -/
theorem healedAgain : fl4.Settled ∧ fl4.AllRunning :=
  crashed_nodehost_is_healed_again fl settled fcx ctxOnce [] [] frs rfl fdb' 2 rfl
    (by
      intro c hc
      simp [fl, fdb] at hc
      rcases hc with rfl | rfl
      · intro r hr; simp [v1] at hr; rcases hr with rfl | rfl | rfl <;> rfl
      · intro r hr; simp [v2] at hr; rcases hr with rfl | rfl | rfl <;> rfl)
    "a1" s1 rfl (by decide) down v1 (by simp [fl, fdb]) r11 classes1.1 h1 rfl rfl
    (by
      intro c hc m hf
      simp [fl, fdb] at hc
      rcases hc with rfl | rfl
      · have hf' : v1.failedReplicas 100 = [m] := hf
        rw [classes1.1] at hf'; cases hf'
        exact ⟨rfl, g1, rfl, by simp [g1], rfl⟩
      · have hf' : v2.failedReplicas 100 = [m] := hf
        rw [classes2.1] at hf'; cases hf'
        exact ⟨rfl, g2, rfl, by simp [g2], rfl⟩)
    (by
      intro g' hg' p hp
      simp [fl] at hg'
      rcases hg' with rfl | rfl
      · simp [g1, Group.cur, m1] at hp
        rcases hp with rfl | rfl | rfl
        · exact Or.inl ⟨v1, by simp [fl, fdb], r11, rfl, classes1.1, rfl⟩
        · exact Or.inr ⟨by decide, h2, rfl, rfl, ⟨1, 102, 0⟩, rfl, rfl⟩
        · exact Or.inr ⟨by decide, h3, rfl, rfl, ⟨1, 103, 0⟩, rfl, rfl⟩
      · simp [g2, Group.cur, m2] at hp
        rcases hp with rfl | rfl | rfl
        · exact Or.inl ⟨v2, by simp [fl, fdb], r21, rfl, classes2.1, rfl⟩
        · exact Or.inr ⟨by decide, h2, rfl, rfl, ⟨2, 202, 0⟩, rfl, rfl⟩
        · exact Or.inr ⟨by decide, h3, rfl, rfl, ⟨2, 203, 0⟩, rfl, rfl⟩)
    fl2 2 rfl false fl4 0 rfl
#print axioms healedAgain
end FleetWitness
end Drummer
