import DrummerVerif.Lemmas.C01M
/-! Non-vacuity of `C01.one_round_heals_a_crashed_member`: a concrete closed-loop state that meets all of its hypotheses
    (every equation is evaluated by the kernel), and the conclusion it yields there -/
namespace Drummer
namespace HealWitness
def wh : Host := { addr := "a1", data := [((1, 101), (0 : Int))] }
def wm : Membership := { ver := 1, members := [(101, "a1")], removed := [] }
def wg : Group := { shard := 1, hist := [wm] }
/-- one NodeHost that holds the data of replica 101 of shard 1 and does not run it (it crashed and came back) -/
def wl : Loop := { db := {}, hosts := [wh], groups := [wg] }
/-- the restore request of the round -/
def wr : Request := { type := .create, shardId := 1, members := [101], raftAddress := "a1", instantiateReplicaId := 101, restore := true, join := false }
def wdb : DB := match wl.db.applyRequests [wr] with | .ok (d, _) => d | .panic _ => {}
def wl2 : Loop := match ({ wl with db := wdb } : Loop).report "a1" false with | .ok (l, _) => l | .panic _ => wl
def wl4 : Loop := match (wl2.execute "a1").report "a1" false with | .ok (l, _) => l | .panic _ => wl

theorem war : wl.AR := by
  refine ⟨?_, ?_, ?_⟩
  · intro s g h
    have hg := (group?_mem wl s g h).1
    simp [wl] at hg
    subst hg; simp [wg]
  · intro x hx rep hrep
    simp [wl] at hx
    subst hx; simp [wh] at hrep
  · intro x hx e he
    simp [wl] at hx
    subst hx
    simp [wh] at he
    subst he
    exact Or.inr ⟨wg, rfl, by decide⟩

/-- the hypotheses of `restore_round_heals_member` hold of this state, and its conclusion is the expected one: after
    schedule, report, execute, the host runs replica 101 of shard 1 -/
theorem heals : ∃ h3, (wl2.execute "a1").host? "a1" = some h3 ∧ (h3.run? 1).map (·.id) = some 101 :=
  (restore_round_heals_member wl war (by intro c hc; simp [wl] at hc) [wr] wdb 1 rfl (by decide) wr (by simp) rfl rfl rfl
    wh rfl rfl 0 rfl
    (by
      intro x hx _
      have : x = wr := by
        simp [wh, forAddr, wr] at hx
        exact hx
      exact Or.inl this)
    wl2 1 rfl false wl4 0 rfl).1
#print axioms heals
end HealWitness
end Drummer
