import DrummerVerif.Lemmas.C01J
import DrummerVerif.Props.WitnessReplace
/-! Non-vacuity of `round_is_one_join`: the state after the replacement member (777 on a4) has entered the view: 101 still
    failed and not restorable, 102 and 103 healthy, 777 never reported. The round is evaluated by the kernel. -/
namespace Drummer
namespace JoinWitness
open ReplaceWitness
def r4 : Replica := { shardId := 1, replicaId := 777, address := "a4", tick := 0, firstObserved := 100 }
def jview : Shard := { shardId := 1, cci := 2, replicas := [r1, r2, r3, r4] }
def jdb : DB := { tick := 100, shards := [tdef], image := { shards := [jview] }, hosts := [s1, s2, s3, s4] }
def jcr : ShardRepair := { shard := jview, failed := [r1], ok := [r2, r3], toStart := [r4] }
def jcx : Ctx := { tick := 100, defs := [tdef], regions := none, hosts := [s2, s3, s4], allHosts := [s1, s2, s3, s4], repairs := [jcr], toKill := [] }

theorem jclasses : jview.failedReplicas 100 = [r1] ∧ jview.okReplicas 100 = [r2, r3] ∧ jview.toStart 100 = [r4] := by decide

theorem jctx : CtxOnce jdb jcx := by
  refine { repairs := ?_, defs := ?_, needed := ?_, complete := ?_, kills := rfl, now := rfl, hostsAll := rfl, defsAll := ?_,
           once := by simp [jcx] }
  · intro cr hcr
    simp [jcx] at hcr
    subst hcr
    refine ⟨by simp [jdb, jcr], ?_, ?_, ?_⟩
    · show [r1].Perm (jview.failedReplicas 100); rw [jclasses.1]
    · show [r2, r3].Perm (jview.okReplicas 100); rw [jclasses.2.1]
    · show [r4].Perm (jview.toStart 100); rw [jclasses.2.2]
  · intro dd hdd
    simp [jcx] at hdd
    subst hdd; simp [jdb]
  · intro cr hcr
    simp [jcx] at hcr
    subst hcr
    exact Or.inl (by simp [jcr])
  · intro c hc _
    simp [jdb] at hc
    subst hc
    exact ⟨jcr, by simp [jcx], rfl⟩
  · intro dd hdd
    simp [jdb] at hdd
    subst hdd; simp [jcx]

def jrs : List Request := match maintain jcx [] with | .ok rs _ => rs | _ => []
#guard jrs.map (fun r => (r.type == .create, r.join, r.restore, r.instantiateReplicaId, r.raftAddress)) == [(true, true, false, 777, "a4")]

/-- every hypothesis of `round_is_one_join` holds of this state -/
theorem joins : ∃ app, jrs = [createReq r4 jview app true false] :=
  (round_is_one_join jdb jcx jctx [] [] jrs rfl rfl jview (by simp [jdb]) r4 jclasses.2.2
    (by intro c' hc' hne; simp [jdb] at hc'; exact absurd hc' hne)
    tdef (by simp [jdb]) rfl
    (by intro dx hdx _; simp [jdb] at hdx; subst hdx
        show (jview.failedReplicas 100).length + (jview.okReplicas 100).length ≤ tdef.members.length
        rw [jclasses.1, jclasses.2.1]; decide)
    (by intro m hm spec hsp
        have hm' : m ∈ jview.failedReplicas 100 := hm
        rw [jclasses.1] at hm'
        simp at hm'
        subst hm'
        have h1 : hostFind? jdb.hosts r1.address = some s1 := rfl
        rw [h1] at hsp; cases hsp; decide)).imp fun _ h => h.1
#print axioms joins
end JoinWitness
end Drummer
