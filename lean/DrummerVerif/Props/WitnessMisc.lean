import DrummerVerif.Props.C06
import DrummerVerif.Props.C15
import DrummerVerif.Props.C17
import DrummerVerif.Props.C18
import DrummerVerif.Props.C19
import DrummerVerif.Props.C20
/-!
# Non-vacuity witnesses for the codec, the state machines, the service, the agent, the facade and the checker

Concrete inputs on which the model functions the C06 / C15 / C17 / C18 / C19 / C20 theorems talk about take the branches
the theorems distinguish. `example ... := by decide` lines are evaluated by the kernel; the codec and the checker search are
defined by well-founded recursion, which `decide` does not unfold, so their lines are `#guard`s (evaluated by the compiler at
build time; a wrong value fails the build).
-/
namespace WitnessMisc
open Codec Kvsm WGL

/- C20: a pair encodes to seven bytes, decodes back to itself consuming seven; a stray byte after it is reported as a tail
    at 7; a byte that is no field header is refused with its position; the declared length is the produced length -/
#guard marshal { key := [107], val := [118] } == [0, 1, 107, 1, 1, 118, 127]
#guard unmarshalBinary {} (marshal { key := [107], val := [118] }) == .ok 7 { key := [107], val := [118] }
#guard unmarshalBinary {} (marshal { key := [107], val := [118] } ++ [0]) == .err (.tail 7) { key := [107], val := [118] }
#guard unmarshalBinary {} [5] == .err (.header 0) {}
#guard marshalLen { key := [107], val := [118] } == .ok 7

/- C15: an update through the in-memory machine is what the next lookup returns (result = command length, count = 1) -/
#guard (match update {} false (marshal { key := [107], val := [118] }) with
    | Kvsm.Out.ok s r => lookup s [107] == [118] && r == 7 && s.count == 1
    | Kvsm.Out.panic => false)

/-- C17: a definition without members is refused by the service and leaves the DB alone; a well-formed one is decided by
    the DB (code 0); a region specification with more counts than regions is refused -/
example : (Drummer.apiSubmitChange {} { shardId := 1, members := [], appName := "a" }).1 = .invalidArgument ∧
    (Drummer.apiSubmitChange {} { shardId := 1, members := [], appName := "a" }).2.shards = [] ∧
    (Drummer.apiSubmitChange {} { shardId := 1, members := [1, 2, 3], appName := "a" }).1 = .code 0 ∧
    (Drummer.apiSubmitChange {} { shardId := 1, members := [1, 2, 3], appName := "a" }).2.shards.length = 1 ∧
    (Drummer.apiSetRegions {} ["r"] [3, 1] [1]).1 = .invalidArgument := by decide

/-- C18: details are left out exactly when Drummer's advertised version has caught up and the replica is not pending -/
example : Drummer.reportIncomplete (some 5) 5 false = true ∧ Drummer.reportIncomplete (some 4) 5 false = false ∧
    Drummer.reportIncomplete none 5 false = false ∧ Drummer.reportIncomplete (some 9) 5 true = false := by decide

/-- C19: the session kind follows the type of the shard asked for (regular: tracked, on-disk: no-op), whatever else the
    NodeHost runs; a shard that is not hosted has no answer -/
example : (NHApi.supportNew [(1, .regular), (2, .onDisk)] [] 2).1 = some false ∧
    (NHApi.supportNew [(1, .regular), (2, .onDisk)] [] 1).1 = some true ∧
    (NHApi.supportNew [(1, .regular), (2, .onDisk)] [] 7).1 = none := by decide

/-- C06: the search on two small histories of the bundled register model: write 1 then read 1 is linearizable, write 1
    then read 2 is not -/
def wOp : WGL.Op := ⟨1, 1, 0, false, false, 0, false⟩
def rOp (v : Int) : WGL.Op := ⟨0, 0, 0, false, true, v, false⟩
def hist : List WGL.Entry := [⟨.call, 0⟩, ⟨.ret, 0⟩, ⟨.call, 1⟩, ⟨.ret, 1⟩]
#guard (dfs etcd (fun i => if i = 0 then wOp else rOp 1) (fun i => if i = 0 then wOp else rOp 1) 5 hist etcd.init [] []).1
#guard !(dfs etcd (fun i => if i = 0 then wOp else rOp 2) (fun i => if i = 0 then wOp else rOp 2) 5 hist etcd.init [] []).1

end WitnessMisc
