import DrummerVerif.Lemmas.Rounds
/-! Non-vacuity of `healed_fleet_stays_healed`: a concrete settled closed-loop state in which every member is running
    (one shard, one member on one NodeHost, the view at the group's version), and a concrete fault-free event sequence
    from it (a tick, the NodeHost's report, an execution); the model's `report` on that state is evaluated by the kernel. -/
namespace Drummer
namespace QuietWitness
def qm : Membership := { ver := 1, members := [(101, "a1")], removed := [] }
def qg : Group := { shard := 1, hist := [qm] }
def qh : Host := { addr := "a1", running := [⟨1, 101, 0⟩], data := [((1, 101), (0 : Int))] }
def qview : Shard := { shardId := 1, cci := 1, replicas := [{ shardId := 1, replicaId := 101, address := "a1", tick := 5, firstObserved := 5 }] }
def qdb : DB := { tick := 5, image := { shards := [qview] } }
def ql : Loop := { db := qdb, hosts := [qh], groups := [qg], nextVer := 1 }

theorem settled : ql.Settled := by
  refine ⟨?_, ?_, ?_, rfl, rfl⟩
  · intro c hc
    simp [ql, qdb] at hc
    subst hc
    exact ⟨qg, rfl, rfl⟩
  · intro h hh rep hrep
    simp [ql] at hh
    subst hh
    simp [qh] at hrep
    subst hrep
    exact ⟨qg, rfl, by simp [qg], rfl, qview, by simp [ql, qdb], rfl⟩
  · intro h hh
    simp [ql] at hh
    subst hh; rfl

theorem allRunning : ql.AllRunning := by
  intro g hg p hp
  simp [ql] at hg
  subst hg
  simp [qg, Group.cur, qm] at hp
  subst hp
  exact ⟨qh, rfl, rfl, ⟨1, 101, 0⟩, rfl, rfl⟩

/-- the state after a tick, the NodeHost's report and an execution -/
def qdb1 : DB := match qdb.applyTick with | .ok (d, _) => d | .panic _ => qdb
def ql1 : Loop := { ql with db := qdb1 }
def ql2 : Loop := match ql1.report "a1" false with | .ok (l, _) => l | .panic _ => ql1

theorem steps : QuietSteps ql (ql2.execute "a1") :=
  .tail _ _ _ (.tail _ _ _ (.tail _ _ _ (.refl ql) (.tick ql qdb1 10 rfl)) (.report ql1 ql2 "a1" false 0 rfl)) (.execute ql2 "a1")

/-- the conclusion of `healed_fleet_stays_healed` on this run: still settled, the member still running, and the report
    has stamped it with the new time (evaluated) -/
theorem stays : (ql2.execute "a1").Settled ∧ (ql2.execute "a1").AllRunning :=
  let h := healed_fleet_stays_healed ql _ settled allRunning steps
  ⟨h.1, h.2.1⟩

/-- `quiet_window` on the same state: the member record is 0 old at time 5; a window with one tick, the report and a
    scheduling round (no premise) fits under the timeout -/
theorem fresh0 : ql.db.Fresh 0 := by
  intro c hc r hr
  simp [ql, qdb] at hc
  subst hc
  simp [qview] at hr
  subst hr
  decide

theorem window : WindowSteps ql ql2 1 :=
  .tail _ _ _ 1 0 (.tail _ _ _ 0 1 (.refl ql) (.tick ql qdb1 10 rfl)) (.report ql1 ql2 "a1" false 0 rfl)

theorem windowQuiet : QuietSteps ql ql2 ∧ ql2.Settled :=
  let h := quiet_window ql ql2 1 0 settled (by decide) fresh0 (by decide) (by decide) window
  ⟨h.1, h.2.1⟩

/-- `report_renews_the_records_of_its_host` on the same run: the view's record is hosted by a1, the report at time 10
    stamps it, and with a1 the only NodeHost named by a record the records are 0 old afterwards -/
theorem hosted : ql1.ViewsHosted := by
  intro c hc r hr
  simp [ql1, ql, qdb1, qdb, DB.applyTick] at hc
  subst hc
  simp [qview] at hr
  subst hr
  exact ⟨qh, rfl, ⟨1, 101, 0⟩, rfl, rfl⟩

theorem renewed : ql2.db.Since 10 ["a1"] :=
  (report_since ql1 ql2 "a1" false 0 10 [] (quiet_step ql ql1 settled (.tick ql qdb1 10 rfl)).1
    (by intro c hc c' hc' _; simp [ql1, ql, qdb1, qdb, DB.applyTick] at hc hc'; rw [hc, hc'])
    hosted (by decide) (since_nil _ _) rfl).1

/-- `healed_for_ever_under_cadence` with one sweep of one tick on the same state: the tick, then the report of a1 (the
    only NodeHost a record names) -/
theorem hosted0 : ql.ViewsHosted := by
  intro c hc r hr
  simp [ql, qdb] at hc
  subst hc
  simp [qview] at hr
  subst hr
  exact ⟨qh, rfl, ⟨1, 101, 0⟩, rfl, rfl⟩

theorem oneSweep : Sweeps 1 ql ql2 :=
  .tail ql ql ql2 ["a1"] (.refl ql)
    (.report ql ql1 ql2 1 [] "a1" false 0 (.step ql ql ql1 0 1 [] (.refl ql) (.tick ql qdb1 10 rfl)) rfl)
    (by decide)
    (by
      intro c hc r hr
      have : ql2.db.image.shards.all (fun c => c.replicas.all (fun r => r.address == "a1")) = true := by decide
      rw [List.all_eq_true] at this
      have h1 := this c hc
      rw [List.all_eq_true] at h1
      simpa using h1 r hr)

theorem forEver : ql2.Settled ∧ ql2.AllRunning :=
  let h := healed_for_ever_under_cadence 1 ql ql2 settled allRunning (by decide) (fresh_mono _ 0 _ (by decide) fresh0)
    (by intro c hc c' hc' _; simp [ql, qdb] at hc hc'; rw [hc, hc']) hosted0 (by decide) oneSweep
  ⟨h.2.1, h.2.2.1⟩

example : ql2.db.image.shards.all (fun c => c.replicas.all (fun r => r.tick == 10)) = true := by decide
#print axioms stays
end QuietWitness
end Drummer
