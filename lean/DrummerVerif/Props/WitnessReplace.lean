import DrummerVerif.Lemmas.C01A
/-! Non-vacuity of `replacement_member_is_added`: four NodeHosts, one shard of three members; member 101's NodeHost a1 is
    gone for good (its record is stale), 102 and 103 run and are healthy, a4 is an idle NodeHost with a recent record. The
    round (scripted draws), the report of the addressed NodeHost and its execution are evaluated by the kernel; the theorem
    then says the group's membership has a fourth member on a4. -/
namespace Drummer
namespace ReplaceWitness
def tm : Membership := { ver := 1, members := [(101, "a1"), (102, "a2"), (103, "a3")], removed := [] }
def tg : Group := { shard := 1, hist := [tm] }
def h2 : Host := { addr := "a2", running := [⟨1, 102, 0⟩], data := [((1, 102), (0 : Int))] }
def h3 : Host := { addr := "a3", running := [⟨1, 103, 0⟩], data := [((1, 103), (0 : Int))] }
def h4 : Host := { addr := "a4" }
def r1 : Replica := { shardId := 1, replicaId := 101, address := "a1", tick := 5, firstObserved := 5 }
def r2 : Replica := { shardId := 1, replicaId := 102, address := "a2", tick := 100, firstObserved := 5 }
def r3 : Replica := { shardId := 1, replicaId := 103, address := "a3", tick := 100, firstObserved := 5 }
def tview : Shard := { shardId := 1, cci := 1, replicas := [r1, r2, r3] }
def tdef : ShardDef := { shardId := 1, members := [101, 102, 103], appName := "app" }
def s1 : HostSpec := { address := "a1", rpcAddress := "rpc-a1", region := "r", tick := 5, plog := [⟨1, 101⟩], shards := [1] }
def s2 : HostSpec := { address := "a2", rpcAddress := "rpc-a2", region := "r", tick := 100, plog := [⟨1, 102⟩], shards := [1] }
def s3 : HostSpec := { address := "a3", rpcAddress := "rpc-a3", region := "r", tick := 100, plog := [⟨1, 103⟩], shards := [1] }
def s4 : HostSpec := { address := "a4", rpcAddress := "rpc-a4", region := "r", tick := 100, plog := [], shards := [] }
def tdb : DB := { tick := 100, shards := [tdef], image := { shards := [tview] }, hosts := [s1, s2, s3, s4] }
def tl : Loop := { db := tdb, hosts := [h2, h3, h4], groups := [tg], nextVer := 1 }
def tcr : ShardRepair := { shard := tview, failed := [r1], ok := [r2, r3], toStart := [] }
def tcx : Ctx := { tick := 100, defs := [tdef], regions := none, hosts := [s2, s3, s4], allHosts := [s1, s2, s3, s4], repairs := [tcr], toKill := [] }
def tdraws : List Nat := [0, 1, 0, 102, 777, 9]

theorem classes : tview.failedReplicas 100 = [r1] ∧ tview.okReplicas 100 = [r2, r3] ∧ tview.toStart 100 = [] ∧
    tview.available 100 = true := by decide

theorem settled : tl.Settled := by
  refine ⟨?_, ?_, ?_, rfl, rfl⟩
  · intro c hc
    simp [tl, tdb] at hc
    subst hc
    exact ⟨tg, rfl, rfl⟩
  · intro h hh rep hrep
    simp [tl] at hh
    rcases hh with rfl | rfl | rfl
    · simp [h2] at hrep; subst hrep
      exact ⟨tg, rfl, by simp [tg], rfl, tview, by simp [tl, tdb], rfl⟩
    · simp [h3] at hrep; subst hrep
      exact ⟨tg, rfl, by simp [tg], rfl, tview, by simp [tl, tdb], rfl⟩
    · simp [h4] at hrep
  · intro h hh
    simp [tl] at hh
    rcases hh with rfl | rfl | rfl <;> rfl

theorem ctxOnce : CtxOnce tdb tcx := by
  refine { repairs := ?_, defs := ?_, needed := ?_, complete := ?_, kills := rfl, now := rfl, hostsAll := rfl, defsAll := ?_,
           once := by simp [tcx] }
  · intro cr hcr
    simp [tcx] at hcr
    subst hcr
    refine ⟨by simp [tdb, tcr], ?_, ?_, ?_⟩
    · show [r1].Perm (tview.failedReplicas 100); rw [classes.1]
    · show [r2, r3].Perm (tview.okReplicas 100); rw [classes.2.1]
    · show [].Perm (tview.toStart 100); rw [classes.2.2.1]
  · intro dd hdd
    simp [tcx] at hdd
    subst hdd; simp [tdb]
  · intro cr hcr
    simp [tcx] at hcr
    subst hcr
    exact Or.inl (by simp [tcr])
  · intro c hc _
    simp [tdb] at hc
    subst hc
    exact ⟨tcr, by simp [tcx], rfl⟩
  · intro dd hdd
    simp [tdb] at hdd
    subst hdd; simp [tcx]

/-- the round, evaluated -/
def trs : List Request := match maintain tcx tdraws with | .ok rs _ => rs | _ => []
def trest : List Nat := match maintain tcx tdraws with | .ok _ rest => rest | _ => []
def tdb' : DB := match tdb.applyRequests trs with | .ok (d, _) => d | .panic _ => tdb
def tl2 : Loop := match ({ tl with db := tdb' } : Loop).report "a3" false with | .ok (l, _) => l | .panic _ => tl

#guard trs.map (fun r => (r.type == .add, r.shardId, r.members, r.addressList, r.raftAddress, r.confChangeId)) ==
  [(true, 1, [777], ["a4"], "a3", 1)]
#guard ((tl2.execute "a3").group? 1).map (fun g => g.cur.members) == some [(101, "a1"), (102, "a2"), (103, "a3"), (777, "a4")]

def treq : Request := { type := .add, shardId := 1, members := [777], confChangeId := 1, raftAddress := "a3", addressList := ["a4"] }
theorem htrs : trs = [treq] := by decide

/-- every hypothesis of `replacement_member_is_added` holds of this state; the conclusion, instantiated: the request is
    an ADD of a fresh id on a4 sent to a3, and after a3's report and execution the group has the fourth member -/
theorem added : ∃ g', (tl2.execute "a3").group? 1 = some g' ∧ g'.cur.members = tm.members ++ [(777, "a4")] := by
  obtain ⟨r, via, id, spec, hrs, _, hid, hal, hvia, hra, hspec, _, _, hnz, _, hfin⟩ :=
    replacement_member_is_added tl settled tcx ctxOnce tdraws trest trs rfl tdb' 1 rfl
      (by intro c hc; simp [tl, tdb] at hc; subst hc; intro r hr; simp [tview] at hr; rcases hr with rfl | rfl | rfl <;> rfl)
      tview (by simp [tl, tdb]) r1 classes.1 classes.2.2.1 classes.2.2.2
      (by intro c' hc' hne; simp [tl, tdb] at hc'; exact absurd hc' hne)
      tdef (by simp [tl, tdb]) rfl
      (by intro dx hdx _; simp [tl, tdb] at hdx; subst hdx; decide)
      (by intro spec hsp
          have h1 : hostFind? tl.db.hosts r1.address = some s1 := rfl
          rw [h1] at hsp; cases hsp; decide)
      tg rfl
      (by intro x hx; simp [tview] at hx; rcases hx with rfl | rfl | rfl <;> decide)
      (by
        intro x hx
        have hx' : x ∈ tview.okReplicas 100 := hx
        rw [classes.2.1] at hx'
        simp at hx'
        rcases hx' with rfl | rfl
        · exact ⟨h2, ⟨1, 102, 0⟩, rfl, rfl, rfl⟩
        · exact ⟨h3, ⟨1, 103, 0⟩, rfl, rfl, rfl⟩)
      (by decide)
      (by
        intro r hr id na hid hna
        rw [htrs] at hr
        simp at hr
        subst hr
        cases hid; cases hna
        refine ⟨by simp [tg, Group.cur, tm], ?_⟩
        intro p hp
        simp [tg, Group.cur, tm] at hp
        rcases hp with rfl | rfl | rfl <;> decide)
  rw [htrs] at hrs
  simp at hrs
  subst hrs
  cases hid
  have hsa : spec.address = "a4" := by
    have : ["a4"] = [spec.address] := hal
    simpa using this.symm
  have hva : via.address = "a3" := hra.symm
  obtain ⟨hgrp, _⟩ := hfin tl2 1 (by rw [hva]; rfl)
  rw [hva, hsa] at hgrp
  exact ⟨_, hgrp, by simp [cur_append, Membership.added, tg, Group.cur, tm]⟩
#print axioms added
end ReplaceWitness
end Drummer
