import DrummerVerif.Lemmas.C01E
/-! Non-vacuity of `one_round_heals_the_detected_member`: a concrete closed-loop state that meets every hypothesis - three
    NodeHosts, one shard of three members; member 101 crashed with its NodeHost a1 (which is back, holds the data, has
    reported its logs) and is classified failed, the other two are running and healthy - and the scheduler context
    `updateSchedulerContext` would build from it. The round, the report, the execution and the next report are evaluated by
    the kernel; the theorem then says that 101 is running again. -/
namespace Drummer
namespace TimelineWitness
def tm : Membership := { ver := 1, members := [(101, "a1"), (102, "a2"), (103, "a3")], removed := [] }
def tg : Group := { shard := 1, hist := [tm] }
def h1 : Host := { addr := "a1", data := [((1, 101), (0 : Int))] }
def h2 : Host := { addr := "a2", running := [⟨1, 102, 0⟩], data := [((1, 102), (0 : Int))] }
def h3 : Host := { addr := "a3", running := [⟨1, 103, 0⟩], data := [((1, 103), (0 : Int))] }
def r1 : Replica := { shardId := 1, replicaId := 101, address := "a1", tick := 5, firstObserved := 5 }
def r2 : Replica := { shardId := 1, replicaId := 102, address := "a2", tick := 100, firstObserved := 5 }
def r3 : Replica := { shardId := 1, replicaId := 103, address := "a3", tick := 100, firstObserved := 5 }
def tview : Shard := { shardId := 1, cci := 1, replicas := [r1, r2, r3] }
def tdef : ShardDef := { shardId := 1, members := [101, 102, 103], appName := "app" }
def s1 : HostSpec := { address := "a1", rpcAddress := "rpc-a1", region := "r", tick := 100, plog := [⟨1, 101⟩], shards := [1] }
def s2 : HostSpec := { address := "a2", rpcAddress := "rpc-a2", region := "r", tick := 100, plog := [⟨1, 102⟩], shards := [1] }
def s3 : HostSpec := { address := "a3", rpcAddress := "rpc-a3", region := "r", tick := 100, plog := [⟨1, 103⟩], shards := [1] }
def tdb : DB := { tick := 100, shards := [tdef], image := { shards := [tview] }, hosts := [s1, s2, s3] }
def tl : Loop := { db := tdb, hosts := [h1, h2, h3], groups := [tg], nextVer := 1 }
def tcr : ShardRepair := { shard := tview, failed := [r1], ok := [r2, r3], toStart := [] }
def tcx : Ctx := { tick := 100, defs := [tdef], regions := none, hosts := [s1, s2, s3], allHosts := [s1, s2, s3], repairs := [tcr], toKill := [] }

theorem classes : tview.failedReplicas 100 = [r1] ∧ tview.okReplicas 100 = [r2, r3] ∧ tview.toStart 100 = [] ∧
    tview.available 100 = true := by decide

theorem settled : tl.Settled := by
  refine ⟨?_, ?_, ?_, rfl, rfl⟩
  · intro c hc
    simp [tl, tdb] at hc
    subst hc
    exact ⟨tg, rfl, rfl⟩
  · intro h hh rep hrep
    simp [tl] at hh
    rcases hh with rfl | rfl | rfl
    · simp [h1] at hrep
    · simp [h2] at hrep; subst hrep
      exact ⟨tg, rfl, by simp [tg], rfl, tview, by simp [tl, tdb], rfl⟩
    · simp [h3] at hrep; subst hrep
      exact ⟨tg, rfl, by simp [tg], rfl, tview, by simp [tl, tdb], rfl⟩
  · intro h hh
    simp [tl] at hh
    rcases hh with rfl | rfl | rfl <;> rfl

theorem ar : tl.AR := by
  refine ⟨?_, ?_, ?_⟩
  · intro s g h
    have hg := (group?_mem tl s g h).1
    simp [tl] at hg
    subst hg; simp [tg]
  · intro x hx rep hrep
    simp [tl] at hx
    rcases hx with rfl | rfl | rfl
    · simp [h1] at hrep
    · simp [h2] at hrep; subst hrep; exact Or.inr ⟨tg, rfl, by decide⟩
    · simp [h3] at hrep; subst hrep; exact Or.inr ⟨tg, rfl, by decide⟩
  · intro x hx e he
    simp [tl] at hx
    rcases hx with rfl | rfl | rfl
    · simp [h1] at he; subst he; exact Or.inr ⟨tg, rfl, by decide⟩
    · simp [h2] at he; subst he; exact Or.inr ⟨tg, rfl, by decide⟩
    · simp [h3] at he; subst he; exact Or.inr ⟨tg, rfl, by decide⟩

theorem ctxFull : CtxFull tdb tcx := by
  refine { repairs := ?_, defs := ?_, needed := ?_, complete := ?_, kills := rfl, now := rfl, hostsAll := rfl, defsAll := ?_ }
  · intro cr hcr
    simp [tcx] at hcr
    subst hcr
    refine ⟨by simp [tdb, tcr], ?_, ?_, ?_⟩
    · show [r1].Perm (tview.failedReplicas 100); rw [classes.1]
    · show [r2, r3].Perm (tview.okReplicas 100); rw [classes.2.1]
    · show [].Perm (tview.toStart 100); rw [classes.2.2.1]
  · intro dd hdd
    simp [tcx] at hdd
    subst hdd; simp [tdb]
  · intro cr hcr
    simp [tcx] at hcr
    subst hcr
    exact Or.inl (by simp [tcr])
  · intro c hc _
    simp [tdb] at hc
    subst hc
    exact ⟨tcr, by simp [tcx], rfl⟩
  · intro dd hdd
    simp [tdb] at hdd
    subst hdd; simp [tcx]

/-- the round, evaluated -/
def trs : List Request := match maintain tcx [] with | .ok rs _ => rs | _ => []
def tdb' : DB := match tdb.applyRequests trs with | .ok (d, _) => d | .panic _ => tdb
def tl2 : Loop := match ({ tl with db := tdb' } : Loop).report "a1" false with | .ok (l, _) => l | .panic _ => tl
def tl4 : Loop := match (tl2.execute "a1").report "a1" false with | .ok (l, _) => l | .panic _ => tl

/-- every hypothesis of `one_round_heals_the_detected_member` holds of this state; its conclusion: replica 101 is running
    on a1 again after the round, the report, the execution -/
theorem heals : ∃ h3, (tl2.execute "a1").host? "a1" = some h3 ∧ (h3.run? 1).map (·.id) = some 101 :=
  (one_round_heals_the_detected_member tl settled ar
    (by intro c hc c' hc' _; simp [tl, tdb] at hc hc'; rw [hc, hc'])
    tcx ctxFull [] [] trs rfl tdb' 1 rfl
    (by intro c hc; simp [tl, tdb] at hc; subst hc; intro r hr; simp [tview] at hr; rcases hr with rfl | rfl | rfl <;> rfl)
    tview (by simp [tl, tdb]) r1 classes.1 classes.2.2.1 classes.2.2.2
    tdef (by simp [tl, tdb]) rfl s1 rfl (by decide) (by decide)
    h1 rfl rfl 0 rfl tl2 1 rfl false tl4 0 rfl).1

theorem ctxOnce : CtxOnce tdb tcx := { toCtxFull := ctxFull, once := by simp [tcx] }

/-- ... and of `crashed_member_is_healed_again`: after the round, the report, the execution and the next report the fleet
    is settled and every member of the shard is running -/
theorem healedAgain : tl4.Settled ∧ tl4.AllRunning :=
  crashed_member_is_healed_again tl settled
    (by intro c hc c' hc' _; simp [tl, tdb] at hc hc'; rw [hc, hc'])
    tcx ctxOnce [] [] trs rfl tdb' 1 rfl
    (by intro c hc; simp [tl, tdb] at hc; subst hc; intro r hr; simp [tview] at hr; rcases hr with rfl | rfl | rfl <;> rfl)
    tview (by simp [tl, tdb]) r1 classes.1 classes.2.2.1 classes.2.2.2
    (by intro c' hc' hne; simp [tl, tdb] at hc'; exact absurd hc' hne)
    tdef (by simp [tl, tdb]) rfl s1 rfl (by decide) (by decide)
    h1 rfl rfl rfl tg rfl (by simp [tg]) rfl
    (by
      intro g' hg' p hp
      simp [tl] at hg'
      subst hg'
      simp [tg, Group.cur, tm] at hp
      rcases hp with rfl | rfl | rfl
      · exact Or.inl ⟨rfl, rfl⟩
      · exact Or.inr ⟨by decide, h2, rfl, rfl, ⟨1, 102, 0⟩, rfl, rfl⟩
      · exact Or.inr ⟨by decide, h3, rfl, rfl, ⟨1, 103, 0⟩, rfl, rfl⟩)
    tl2 1 rfl false tl4 0 rfl
#print axioms healedAgain

example : trs.length = 1 := by decide
#print axioms heals
end TimelineWitness
end Drummer
