#!/bin/bash
# confirm_mutant.sh <worktree> <mutant-dir>: confirm a seeded change in a scratch worktree:
# demo passes on the clean tree; with the patch: builds, baseline suite passes, demo fails.
wt=$1; m=$2
export GOFLAGS=-mod=mod GOPROXY=off GOSUMDB=off GOTOOLCHAIN=local
cd $wt || exit 2
git checkout -q -- . ; git clean -fdq -e 'MUTANT*' 
ddir=$(jq -r .demo_dir $m/meta.json); [ "$ddir" = "null" ] && ddir=.
tags=""; case "$ddir" in tests*|client*|lcm*) tags="-tags dragonboat_monkeytest";; esac
cp $m/demo_test.go $ddir/zz_seeded_demo_test.go
clean=$(go test $tags -vet=off -count=1 -run 'Test' ./$ddir 2>&1 | tail -1)
git apply $m/patch.diff || { echo "APPLY-FAILED"; exit 3; }
build=$(go build . 2>&1 | tail -1; go vet $tags ./$ddir >/dev/null 2>&1; echo build-rc=$?)
rm -f $ddir/zz_seeded_demo_test.go
base=$(go test -vet=off -count=1 . 2>&1 | tail -1)
cp $m/demo_test.go $ddir/zz_seeded_demo_test.go
mut=$(go test $tags -vet=off -count=1 -run 'Test' ./$ddir 2>&1 | grep -E "^(ok|FAIL|---)" | head -3 | tr '\n' ' ')
rm -f $ddir/zz_seeded_demo_test.go
git checkout -q -- .
echo "CONFIRM $(basename $wt)/$(basename $m): clean-tree demo+suite: [$clean] | patched baseline suite: [$base] | patched demo: [$mut]"
