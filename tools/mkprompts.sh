#!/bin/bash
# mkprompts.sh <scratch-root> <P...>: a scratch worktree of /repo and a self-contained prompt (property text only, nothing from /verif's
# machinery) per property, for the sub-agents that produce seeded changes
root=$1; shift
mkdir -p $root
python3 - "$root" "$@" <<'PY'
import json,glob,sys
root=sys.argv[1]; ids=sys.argv[2:]
tmpl=open('/verif/tools/mutant_prompt.tmpl').read().replace('/tmp/wt/',root+'/')
props={json.loads(l)['id']:json.loads(l) for l in open('/verif/properties.jsonl')}
for pid in ids:
    p=props[pid]
    used=[]
    for d in sorted(glob.glob('/verif/seeded/%s-m*'%pid)):
        m=json.load(open(d+'/meta.json'))
        used.append('- '+m['description'][:200].replace('\n',' '))
    pr=tmpl.replace('@ID@',pid)
    pr+='\n\nALREADY USED in earlier rounds (do NOT repeat these or trivial variants; pick different code sites and mechanisms; prefer error / failure paths, rarely taken branches, values at type boundaries, objects that live across many rounds or calls, and interactions between two calls of the public API):\n'+'\n'.join(used)+'\n'
    open('%s/%s.prompt.txt'%(root,pid),'w').write(pr)
    open('%s/%s.prop.txt'%(root,pid),'w').write(json.dumps(p,indent=1))
PY
for p in "$@"; do git -C /repo worktree add --detach $root/$p HEAD >/dev/null 2>&1; done
git -C /repo worktree list | wc -l
