#!/usr/bin/env python3
"""One-off helper used while writing Props/Cxx.lean: prints, for a list of proved lemmas, a restatement
`theorem <name> : <statement as Lean pretty-prints it> := @<lemma>` so that the property file shows every
statement in full while the proof lives in Lemmas/. The output is reviewed and committed by hand; nothing
is regenerated at check time.
usage: mkprops.py <namespace to open> <import1,import2> name=Const [name=Const ...]"""
import sys, subprocess, re, os, tempfile
ns, imports, items = sys.argv[1], sys.argv[2].split(","), [a.split("=") for a in sys.argv[3:]]
src = "".join("import %s\n" % i for i in imports) + "set_option pp.fieldNotation.generalized false\nset_option linter.all false\nnamespace %s\n" % ns
for name, const in items:
    src += "#check @%s\n" % const
src += "end %s\n" % ns
f = tempfile.NamedTemporaryFile("w", suffix=".lean", delete=False); f.write(src); f.close()
out = subprocess.run(["lake", "env", "lean", f.name], cwd="/verif/lean", capture_output=True, text=True).stdout
os.unlink(f.name)
blocks = re.split(r"(?m)^(?=\S)", out)
res = []
for b in blocks:
    b = b.rstrip()
    if not b or " : " not in b: continue
    head, ty = b.split(" : ", 1)
    res.append((head.strip().lstrip("@"), ty))
for (name, const), (h, ty) in zip(items, res):
    ty = "\n".join("    " + l if i else l for i, l in enumerate(ty.splitlines()))
    print("theorem %s :\n    %s :=\n  @_root_.%s.%s\n" % (name, ty, ns, const))
