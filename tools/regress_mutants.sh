#!/bin/bash
# regress_mutants.sh [first [last]]: every seeded change under seeded/ against the quick check of its property, one line each
# (REGRESS <id> exit=<rc> <first VIOLATION line or no-violation>). Relocatable: works on the copy of /verif it lives in and on
# $VERIF_REPO (default /repo), which must be clean; restores it after every change.
set -u
ROOT=$(cd "$(dirname "$0")/.." && pwd)
REPO=${VERIF_REPO:-/repo}
cd "$ROOT"
n=0
for d in $(ls seeded | sort -V); do
  n=$((n+1))
  [ -n "${1:-}" ] && [ $n -lt $1 ] && continue
  [ -n "${2:-}" ] && [ $n -gt $2 ] && break
  p=${d%%-*}
  patch=$ROOT/seeded/$d/patch.diff
  if [ -n "$(git -C $REPO status --porcelain --untracked-files=no)" ]; then echo "REGRESS $d repo-dirty"; git -C $REPO checkout -- .; fi
  if ! git -C $REPO apply --check "$patch" 2>/dev/null; then echo "REGRESS $d PATCH-DOES-NOT-APPLY"; continue; fi
  git -C $REPO apply "$patch"
  out=$(bin/vcheck "$p" quick 2>&1); rc=$?
  line=$(echo "$out" | grep -E "^VIOLATION" | head -1)
  echo "REGRESS $d exit=$rc ${line:-no-violation}"
  git -C $REPO checkout -- .
done
git -C "$ROOT" checkout -- evidence 2>/dev/null
echo "REGRESS done"
