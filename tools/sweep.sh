#!/bin/bash
# development sweep: tools/sweep.sh <tier> <seed> [ids...]  — runs the checks of this checkout one after the other and
# prints one line per check; with VERIF_REPO set (vp run --with-repo: VERIF_REPO=$VP_RUN_REPO) it runs against that copy.
tier=${1:-quick}; seed=${2:-1}; shift; shift
ids=${@:-C01 C02 C03 C04 C05 C06 C07 C08 C09 C10 C11 C12 C13 C14 C15 C16 C17 C18 C19 C20}
here=$(cd $(dirname $0)/.. && pwd)
for p in $ids; do
  t0=$(date +%s)
  out=$(VERIF_SEED=$seed $here/bin/vcheck $p $tier 2>&1); rc=$?
  echo "SWEEP $p tier=$tier seed=$seed exit=$rc $(( $(date +%s) - t0 ))s $(echo "$out" | grep -E '^VIOLATION|KNOWN-FINDING' | head -3 | tr '\n' ' ')"
  if [ $rc -ne 0 ]; then echo "$out" | tail -25; fi
done
