#!/bin/bash
# take_mutants.sh <worktree-root> <P> <first-index> <checks...>: confirm MUTANT1/2 of a sub-agent in its scratch worktree, store them as
# seeded/<P>-m<k>, run the given checks against each
root=$1; P=$2; k=$3; shift; shift; shift
for i in 1 2; do
  m=$root/$P/MUTANT$i
  [ -d $m ] || continue
  /verif/tools/confirm_mutant.sh $root/$P $m 2>&1 | tail -1
  d=/verif/seeded/$P-m$k; mkdir -p $d; cp $m/patch.diff $m/demo_test.go $m/meta.json $d/ 2>/dev/null
  /verif/bin/vmutant $d/patch.diff "$@" | grep MUTANT | cut -c1-330
  k=$((k+1))
done
